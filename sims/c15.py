"""
C15 - line post-processing is chunking-independent and changes only what it documents (DESIGN section 2, C15).

The chunk schedule is the adversary. Unit level: CodeGenerator._generate_with_line_buffer is driven with a text and a
scheduler-chosen cut vector; SupportGenerator._copy_header_using_line_pps gets the same texts as a file on the simulated
disk. System level: Template.generate is wrapped by a re-chunker during real CLI runs.
Oracle: a reference written from the documentation that processes the *whole* text line by line.
"""
import hashlib
import io
import itertools
import os
import re
import typing

from simkit import dsdlgen, nnvg, proc, snapshot, usertpl
from simkit.rng import Rng

PROP = "C15"
LEVEL = "fault_enumeration"
WARM_NUNAVUT = True
RULE = (
    "Unit cases are (text, cut vector, processor list): texts over an alphabet of LF, CRLF, lone CR, space, tab, VT, FF, "
    "NBSP, U+2028 and letters, with and without final newline; cut vectors with empty chunks, one character per chunk, "
    "cuts between CR and LF; processor lists [], [Trim], [Limit N], [Limit N, Trim], [Trim, Limit N], N in 0..3, fresh "
    "processor objects per file. One sub-batch enumerates every text up to a small length over {a, space, LF, CR} with "
    "every cut vector (exhaustive for that space); the rest is seeded. System cases re-cut Template.generate during real "
    "CLI runs (--pp-* flags and language defaults, built-in and CRLF-emitting user templates) and compare with the "
    "engine's own chunking. Distinct = digest of (text class, cut class, processors); non-trivial = text has at least one "
    "terminator and the cut vector has at least one cut."
)
STATE_MEASURE = "distinct (cut-class vector, processor list) pairs: per cut whether it lands before/inside/after a terminator, at whitespace, or produces an empty chunk"
COMPONENTS = {
    "real": ["nunavut.jinja.CodeGenerator._generate_with_line_buffer / _filter_and_write_line", "nunavut._postprocessors.TrimTrailingWhitespace / LimitEmptyLines", "SupportGenerator._copy_header_using_line_pps", "system level: full nnvg CLI, vendored Jinja2, pydsdl"],
    "stub": ["the chunk iterator (scheduler-chosen cut vector)", "Template.generate re-chunker (system level)", "clock (frozen)", "output stream is an in-memory StringIO at unit level"],
}  # fmt: skip
ASSUMPTIONS = [
    "the reference splits the whole text on CRLF|LF, applies each processor line by line with fresh state per file, and concatenates; Trim removes trailing Unicode whitespace of the line content and keeps the terminator; Limit N drops an empty line (and its terminator) when more than N empty lines are consecutive",
    "direct clauses are evaluated on single-processor lists; pipelines are compared with the composed reference only",
    "write-side stream faults are out of scope of the statement (recorded only)",
]

ALPHABET = ["a", "b", " ", "\t", "\n", "\n", "\r\n", "\r\n", "\r", "\v", "\f", " ", "\u2028", "x y", "  ", "\n\n", "\r\n\r\n", "é", "<td>", "&", "'"]
# characters str.splitlines() (and universal-newline readers) treat as line boundaries but that are NOT terminators here:
# inside a line they are content (whitespace for Trim when trailing), and they never end a line for the limiter
EXOTIC = ["\x1c", "\x1d", "\x1e", "\x85", "\u2028", "\u2029", "\v", "\f", "\r", "\xa0", "\u3000", "\u200b", "\x1f", "\u2003", "\x00", "\ufeff"]
# size classes: lines longer than any buffer a writer might keep (4 KiB, 8 KiB, 64 KiB), thousands of lines in one chunk
BIG_TEXTS = [
    "head\nsecond \n" + "x" * 4096 + "\ntail\n",
    "a\n" + "y" * 4095 + "\n" + "z" * 4097 + " \n\n\nend",
    "a\nb \n" + "y " * 2500 + "\n\n\nz",
    "l \n" * 6000,
    "\r\n" * 3000 + "end",
    "q" * 70000,
    "s\n" + " " * 8200 + "\n" + "t\r\n" + "w" * 8192 + "\r\n\r\n\r\nu",
    "".join("line %d%s" % (i, "\r\n" if i % 3 == 0 else "\n") + ("\n" * (i % 5 == 0)) for i in range(3000)),
]
SMALL = ["a", " ", "\n", "\r"]
PROC_LISTS = [[]] + [[["trim"]]] + [[["limit", n]] for n in range(4)] + [[["limit", n], ["trim"]] for n in range(3)] + [[["trim"], ["limit", n]] for n in range(3)]
# user-supplied processors next to the built-in ones (the documented extension point): "num" numbers every line it is
# handed (stateful: shows lines fed twice, out of order, or a missing reset), "mark" tags non-empty lines (stateless),
# "elide" drops lines containing "b" by returning two empty strings (the documented way)
PROC_LISTS += [[["num"]], [["trim"], ["num"]], [["num"], ["limit", 1]], [["limit", 1], ["num"]], [["mark"], ["trim"]], [["elide"], ["limit", 0]], [["elide"], ["num"], ["trim"]], [["elide"], ["limit", 1]], [["elide"], ["trim"], ["limit", 2]], [["limit", 1], ["elide"]]]


def n_cases(tier: str) -> int:
    return 240 if tier == "quick" else 3000


def budget_s(tier: str) -> float:
    return 170.0 if tier == "quick" else 1500.0


def case_timeout_s(tier: str) -> float:
    return 600.0 if tier == "quick" else 2400.0


def directed_cases(seed: int, tier: str) -> typing.List[dict]:
    out = []
    # canonical: every cut of "a \r\n\r\nb" under every processor list
    out.append({"label": "directed-all-cuts-crlf", "mode": "allcuts", "texts": ["a \r\n\r\nb", "a  \r\nb\r\nlast", "\r\n\r\n\r\nx\r\n", " \n\t\n\n\nend", "x\r", "\r", "\n", "", "a\u2028b \n\x85\n\n\x1cq", "a \x85\n\u2029\n\f\n\nz\x1e"]})
    # exhaustive sub-batch, split by first character over workers
    max_len = 6 if tier == "quick" else 8
    for first in [""] + [a + b for a in SMALL for b in SMALL]:
        # "" = the texts shorter than two characters; every other block owns one two-character prefix
        out.append({"label": "exhaustive-%r" % first, "mode": "exhaustive", "first": first, "max_len": max_len})
    for k, (f, w, pl) in enumerate([(0, 2, [["limit", 1]]), (1, 9, [["limit", 1]]), (0, 3, [["trim"], ["limit", 0]]), (1, 5, [["limit", 2], ["trim"]]), (0, 11, [["limit", 1]])]):
        out.append({"label": "directed-retry-%d" % k, "mode": "retry", "dsdl_seed": [seed, PROP, "directed", 0], "fault": {"file": f, "write": w}, "procs": pl, "templates": "blanky"})
    out.append({"label": "directed-big-texts", "mode": "big"})
    out.append({"label": "directed-copy-header", "mode": "copy", "texts": ["a  \r\nb\r\nlast", "a \nb\n", "x", "", "\n", "a\r\n", "l1\nl2  ", "\r\n\r\n\r\n\r\nq", "a\u2028b \n\x85\nc\x1cd\n", "p\x0bq\x0c\r\nr\x1d\x1es"]})
    for li, (lang, tpl, flags) in enumerate([("c", None, {}), ("c", "crlf", {}), ("py", None, {}), ("cpp", "blanky", {"pp_max_empty": 1}), ("py", "crlf", {}), ("c", "blanky", {}), ("py", "blanky", {"pp_trim": True}), ("cpp", "blanky", {"pp_max_empty": 2, "pp_trim": True}), ("c", "blanky", {"pp_max_empty": 3})]):
        out.append({"label": "directed-system-%s-%s-%d" % (lang, tpl, li), "mode": "system", "dsdl_seed": [seed, PROP, "directed", li % 2], "lang": lang, "templates": tpl, "flags": flags})
    return out


def gen_case(seed: int, index: int, tier: str) -> dict:
    if index % 16 == 5:
        return {"mode": "retry", "dsdl_seed": [seed, PROP, "dsdl", index], "ops_seed": [seed, PROP, "retry", index], "tier": tier}
    if index % 8 == 7:
        return {"mode": "system", "dsdl_seed": [seed, PROP, "dsdl", index], "ops_seed": [seed, PROP, "sys", index], "tier": tier}
    if index % 8 == 6:
        return {"mode": "copy", "unit_seed": [seed, PROP, "copy", index], "n": 400, "tier": tier}
    return {"mode": "unit", "unit_seed": [seed, PROP, "unit", index], "n": 4000 if tier == "quick" else 12000, "tier": tier}


# ---------------------------------------------------------------------------------------------------------------------
# the reference, from the documentation

_SPLIT = re.compile(r"\r\n|\n")


def ref_lines(text: str) -> typing.List[typing.Tuple[str, str]]:
    out = []
    pos = 0
    for m in _SPLIT.finditer(text):
        out.append((text[pos : m.start()], m.group(0)))
        pos = m.end()
    if pos < len(text):
        out.append((text[pos:], ""))
    return out


def reference(text: str, procs: typing.List[list]) -> str:
    state = [0 for _ in procs]
    out = []
    for line, term in ref_lines(text):
        for i, p in enumerate(procs):
            if p[0] == "trim":
                line = line.rstrip()  # trailing (Unicode) whitespace of the content only; the terminator is kept
            elif p[0] == "limit":
                if line == "":
                    state[i] += 1
                else:
                    state[i] = 0
                if state[i] > p[1]:
                    line, term = "", ""
            elif p[0] == "num":
                line = "%d|%s" % (state[i], line)
                state[i] += 1
            elif p[0] == "mark":
                line = line + "#" if line else line
            elif p[0] == "elide":
                if "b" in line:
                    line, term = "", ""
        out.append(line + term)
    return "".join(out)


def make_procs(procs: typing.List[list]) -> list:
    from nunavut._postprocessors import LimitEmptyLines, TrimTrailingWhitespace

    from nunavut._postprocessors import LinePostProcessor

    class Num(LinePostProcessor):
        def __init__(self) -> None:
            self.n = 0

        def __call__(self, line_and_lineend: typing.Tuple[str, str]) -> typing.Tuple[str, str]:
            self.n += 1
            return ("%d|%s" % (self.n - 1, line_and_lineend[0]), line_and_lineend[1])

        def reset(self) -> None:
            self.n = 0

    class Mark(LinePostProcessor):
        def __call__(self, line_and_lineend: typing.Tuple[str, str]) -> typing.Tuple[str, str]:
            return (line_and_lineend[0] + "#" if line_and_lineend[0] else line_and_lineend[0], line_and_lineend[1])

    class Elide(LinePostProcessor):
        def __call__(self, line_and_lineend: typing.Tuple[str, str]) -> typing.Tuple[str, str]:
            return ("", "") if "b" in line_and_lineend[0] else line_and_lineend

    out = []
    for p in procs:
        if p[0] == "trim":
            out.append(TrimTrailingWhitespace())
        elif p[0] == "limit":
            out.append(LimitEmptyLines(p[1]))
        else:
            out.append({"num": Num, "mark": Mark, "elide": Elide}[p[0]]())
    return out


def run_impl(text: str, cuts: typing.List[int], procs: typing.List[list], markup: bool = False) -> str:
    from nunavut.jinja import CodeGenerator

    fn = getattr(CodeGenerator, "_generate_with_line_buffer", None)
    if fn is None:
        raise proc.HarnessError("seam missing: CodeGenerator._generate_with_line_buffer")
    bounds = [0] + list(cuts) + [len(text)]
    chunks = (text[bounds[i] : bounds[i + 1]] for i in range(len(bounds) - 1))  # type: typing.Iterator[str]
    if markup:
        # every other chunk is a Markup object (a str subclass): what an auto-escaped template yields for escaped expressions;
        # to a writer it is text like any other
        from nunavut.jinja.jinja2 import Markup

        plain = chunks
        chunks = (Markup(c) if i % 2 else c for i, c in enumerate(plain))
    out = io.StringIO()
    fn(out, chunks, make_procs(procs))
    return out.getvalue()


def run_aborted(text: str, cuts: typing.List[int], after: int, procs: typing.List[list]) -> bool:
    """
    A file whose chunk source (the template, a filter, a copied resource) raises after ``after`` chunks - usually in the
    middle of a line. Nothing of it may reach the next file written in this process. Returns whether it raised.
    """
    from nunavut.jinja import CodeGenerator

    fn = getattr(CodeGenerator, "_generate_with_line_buffer", None)
    if fn is None:
        raise proc.HarnessError("seam missing: CodeGenerator._generate_with_line_buffer")
    bounds = [0] + list(cuts) + [len(text)]

    class TemplateError(Exception):
        pass

    def chunks() -> typing.Iterator[str]:
        for i in range(len(bounds) - 1):
            if i >= after:
                raise TemplateError("chunk source fails")
            yield text[bounds[i] : bounds[i + 1]]
        raise TemplateError("chunk source fails at its end")

    try:
        fn(io.StringIO(), chunks(), make_procs(procs))
    except TemplateError:
        return True
    return False


def cut_classes(text: str, cuts: typing.List[int]) -> typing.Tuple[str, ...]:
    cl = []
    prev = None
    for c in cuts:
        if c == prev or c == 0 or c == len(text):
            cl.append("empty")
        elif text[c - 1 : c + 1] == "\r\n":
            cl.append("in-crlf")
        elif text[c - 1] == "\n":
            cl.append("after-term")
        elif text[c] in "\r\n":
            cl.append("before-term")
        elif text[c - 1].isspace() or text[c].isspace():
            cl.append("at-ws")
        else:
            cl.append("mid")
        prev = c
    return tuple(sorted(set(cl)))


def procs_name(procs: typing.List[list]) -> str:
    return "+".join("%s%s" % (p[0], p[1] if len(p) > 1 else "") for p in procs) or "none"


def check_unit(text: str, cuts: typing.List[int], procs: typing.List[list]) -> typing.Optional[dict]:
    want = reference(text, procs)
    got = run_impl(text, cuts, procs)
    kinds = "+".join(p[0] for p in procs) or "none"
    if cuts and any(c in text for c in "<>&'\""):
        got_m = run_impl(text, cuts, procs, markup=True)
        if got_m != want:
            return {"signature": "%s:unit:%s:markup-chunks" % (PROP, kinds), "detail": {"text": text, "cuts": cuts, "procs": procs, "got": got_m, "want": want}}
    if text == "" and not cuts:
        # a template that yields no chunk at all (not even an empty one) writes an empty file
        from nunavut.jinja import CodeGenerator

        out0 = io.StringIO()
        CodeGenerator._generate_with_line_buffer(out0, iter(()), make_procs(procs))  # pylint: disable=protected-access
        if out0.getvalue() != want:
            return {"signature": "%s:unit:%s:no-chunk-at-all" % (PROP, kinds), "detail": {"text": text, "cuts": cuts, "procs": procs, "got": out0.getvalue(), "want": want}}
    if got != want:
        whole = run_impl(text, [], procs)
        if whole == want:
            cls = "chunking:cut-inside-crlf" if "in-crlf" in cut_classes(text, cuts) and run_impl(text, [c for c in cuts if text[c - 1 : c + 1] != "\r\n"], procs) == want else "chunking"
        else:
            cls = "reference"
        return {"signature": "%s:unit:%s:%s" % (PROP, kinds, cls), "detail": {"text": text, "cuts": cuts, "procs": procs, "got": got, "want": want}}
    # direct clauses on single-processor lists
    if not procs and got != text:
        return {"signature": "%s:unit:none:not-identity" % PROP, "detail": {"text": text, "cuts": cuts, "got": got}}
    if len(procs) == 1 and procs[0][0] == "trim":
        # exactly the trailing whitespace of each line goes, every terminator stays
        if got != "".join(line.rstrip(" \t\v\f\r\u00a0\u2028\u2029\u0085\u1680\u2000\u2001\u2002\u2003\u2004\u2005\u2006\u2007\u2008\u2009\u200a\u202f\u205f\u3000\x1c\x1d\x1e\x1f") + term for line, term in ref_lines(text)):
            return {"signature": "%s:unit:trim:direct-clause" % PROP, "detail": {"text": text, "cuts": cuts, "got": got}}
        if [t for _, t in ref_lines(text) if t] != [t for _, t in ref_lines(got) if t]:
            return {"signature": "%s:unit:trim:terminator-changed" % PROP, "detail": {"text": text, "cuts": cuts, "got": got}}
    if len(procs) == 1 and procs[0][0] == "limit":
        n = procs[0][1]
        run = 0
        for gl, _ in ref_lines(got):
            run = run + 1 if gl == "" else 0
            if run > n:
                return {"signature": "%s:unit:limit:more-than-n-empty-lines" % PROP, "detail": {"text": text, "cuts": cuts, "n": n, "got": got}}
        if [x for x in ref_lines(text) if x[0] != ""] != [x for x in ref_lines(got) if x[0] != ""]:
            return {"signature": "%s:unit:limit:non-empty-line-altered" % PROP, "detail": {"text": text, "cuts": cuts, "n": n, "got": got}}
    return None


def check_copy(text: str, procs: typing.List[list], workdir: str) -> typing.Optional[dict]:
    import pathlib

    from nunavut.jinja import SupportGenerator

    fn = getattr(SupportGenerator, "_copy_header_using_line_pps", None)
    if fn is None:
        raise proc.HarnessError("seam missing: SupportGenerator._copy_header_using_line_pps")
    src = os.path.join(workdir, "resource.h")
    dst = os.path.join(workdir, "target.h")
    with open(src, "w", encoding="utf-8", newline="") as f:
        f.write(text)
    fn(object.__new__(SupportGenerator), pathlib.Path(src), pathlib.Path(dst), make_procs(procs))
    with open(dst, "r", encoding="utf-8", newline="") as f:
        got = f.read()
    want = reference(text, procs)
    if got != want:
        feats = []
        if text and not text.endswith("\n"):
            feats.append("no-final-newline")
        if "\r\n" in text:
            feats.append("crlf")
        if re.search(r"\r(?!\n)", text):
            feats.append("lone-cr")
        return {"signature": "%s:copy-header:%s" % (PROP, "+".join(feats) or "plain"), "detail": {"text": text, "procs": procs, "got": got, "want": want}}
    return None


def _rand_text(r: Rng) -> str:
    n = r.weighted([(r.between(0, 4), 3), (r.between(3, 12), 5), (r.between(10, 40), 2)])
    if r.chance(1, 5):
        return "".join(r.choice(EXOTIC) if r.chance(1, 4) else r.choice(ALPHABET) for _ in range(n))
    return "".join(r.choice(ALPHABET) for _ in range(n))


def _rand_cuts(r: Rng, text: str) -> typing.List[int]:
    L = len(text)
    style = r.below(6)
    if L == 0:
        return [0] * r.below(3)
    if style == 0:
        return list(range(1, L))  # one character per chunk
    if style == 1:
        cuts = [i + 1 for i in range(L - 1) if text[i : i + 2] == "\r\n"]  # every CRLF split
        return cuts
    if style == 2:
        cuts = sorted(r.below(L + 1) for _ in range(r.between(1, 6)))
        return cuts
    if style == 3:
        cuts = sorted(r.below(L + 1) for _ in range(r.between(1, 4)))
        return sorted(cuts + [r.choice(cuts)] * r.between(1, 2))  # empty chunks
    if style == 4:
        return [i for i in range(1, L) if text[i - 1] in "\r\n" or text[i] in "\r\n" and r.chance(1, 2)]
    return []


def run_case(case: dict, ctx: dict) -> dict:
    counters = {"ops": {}, "probes": {}, "status": {}}  # type: typing.Dict[str, typing.Dict[str, int]]

    def bump(group: str, key: str, n: int = 1) -> None:
        counters[group][key] = counters[group].get(key, 0) + n

    mode = case.get("mode", "unit")
    violations = []  # type: typing.List[dict]
    seen_sigs = set()  # type: typing.Set[str]
    keys = set()  # type: typing.Set[str]
    states = set()  # type: typing.Set[str]
    evaluations = 0
    sample = None
    executed = dict(case)

    def record(v: typing.Optional[dict], unit: dict) -> None:
        if v is not None and v["signature"] not in seen_sigs:
            seen_sigs.add(v["signature"])
            violations.append(v)
            executed.setdefault("failing_units", []).append(unit)

    def one_unit(text: str, cuts: typing.List[int], procs: typing.List[list], abort: typing.Optional[dict] = None) -> None:
        nonlocal evaluations
        evaluations += 1
        if abort is not None:
            # the unit alone; then an earlier file of this process dies in its chunk source; then the unit again (a new file)
            v0 = check_unit(text, cuts, procs)
            if v0 is not None:
                record(v0, {"text": text, "cuts": cuts, "procs": procs})
                return
            if run_aborted(abort["text"], abort["cuts"], abort["after"], abort.get("procs", procs)):
                bump("probes", "earlier_file_aborted_by_its_chunk_source")
            v = check_unit(text, cuts, procs)
            if v is not None:
                v["signature"] = "%s:unit:%s:after-file-aborted-in-chunk-source" % (PROP, "+".join(p[0] for p in procs) or "none")
                v["detail"]["abort"] = abort
                record(v, {"text": text, "cuts": cuts, "procs": procs, "abort": abort})
            return
        cc = cut_classes(text, cuts)
        states.add("%s|%s" % (",".join(cc), procs_name(procs)))
        for c in cc:
            bump("probes", "cut:" + c)
        if cuts and _SPLIT.search(text):
            feat = ("crlf" if "\r\n" in text else "") + ("lf" if re.search(r"(?<!\r)\n", text) else "") + ("nofinal" if not text.endswith("\n") else "")
            keys.add(hashlib.sha256(repr((feat, len(text) // 4, cc, procs_name(procs))).encode()).hexdigest()[:12])
        record(check_unit(text, cuts, procs), {"text": text, "cuts": cuts, "procs": procs})

    if "units" in case:  # replay / minimisation: literal units
        for u in case["units"]:
            if u.get("copy"):
                evaluations += 1
                record(check_copy(u["text"], u["procs"], ctx["scratch"]), u)
            else:
                one_unit(u["text"], u["cuts"], u["procs"], u.get("abort"))
        executed = {"label": case.get("label"), "hash_seed": case.get("hash_seed", 0), "mode": "units", "units": case["units"]}
    elif mode == "allcuts":
        for text in case["texts"]:
            for k in range(0, min(len(text), 4) + 1):
                for cuts in itertools.combinations(range(0, len(text) + 1), k):
                    for procs in PROC_LISTS:
                        one_unit(text, list(cuts), procs)
        bump("ops", "allcuts-texts", len(case["texts"]))
    elif mode == "exhaustive":
        first = case["first"]
        lengths = range(0, 2) if first == "" else range(2, case["max_len"] + 1)
        for L in lengths:
            for tail in itertools.product(SMALL, repeat=L - len(first)):
                text = first + "".join(tail)
                for mask in range(1 << max(L - 1, 0)):
                    cuts = [i + 1 for i in range(L - 1) if mask >> i & 1]
                    for procs in PROC_LISTS:
                        one_unit(text, cuts, procs)
        bump("ops", "exhaustive-blocks")
    elif mode == "unit":
        r = Rng(*case["unit_seed"])
        for i in range(case["n"]):
            ru = r.sub(i)
            text = _rand_text(ru)
            cuts = _rand_cuts(ru, text)
            procs = ru.choice(PROC_LISTS)
            abort = None
            if ru.chance(1, 6):
                ra = ru.sub("abort")
                t0 = _rand_text(ra) or "x"
                c0 = _rand_cuts(ra, t0)
                abort = {"text": t0, "cuts": c0, "after": ra.below(len(c0) + 2)}
            one_unit(text, cuts, procs, abort)
            if sample is None and cuts and "\n" in text:
                sample = {"text": text, "cuts": cuts, "procs": procs}
        bump("ops", "seeded-units", case["n"])
    elif mode == "big":
        rb = Rng(PROP, "big")
        for ti, text in enumerate(BIG_TEXTS):
            L = len(text)
            cut_sets = [[], [L // 2], list(range(1000, L, 1000)), [1], [L - 1], sorted(rb.sub(ti, "c").below(L + 1) for _ in range(12)), list(range(4096, L, 4096)), [i + 1 for i in range(L - 1) if text[i : i + 2] == "\r\n"][:200]]
            for cuts in cut_sets:
                for procs in PROC_LISTS:
                    one_unit(text, cuts, procs)
            if ti < 5:
                for procs in PROC_LISTS[1:6]:
                    evaluations += 1
                    record(check_copy(text, procs, ctx["scratch"]), {"copy": True, "text": text, "procs": procs})
        bump("ops", "big-texts", len(BIG_TEXTS))
        bump("probes", "line_longer_than_64KiB")
        bump("probes", "thousands_of_lines_in_one_chunk")
    elif mode == "copy":
        if "texts" in case:
            texts = list(case["texts"])
        else:
            r = Rng(*case["unit_seed"])
            texts = [_rand_text(r.sub(i)) for i in range(case["n"])]
        for ti, text in enumerate(texts):
            for procs in PROC_LISTS[1:]:
                evaluations += 1
                record(check_copy(text, procs, ctx["scratch"]), {"copy": True, "text": text, "procs": procs})
        bump("ops", "copy-header-units", len(texts) * (len(PROC_LISTS) - 1))
        keys.add("copy-%d" % len(texts))
        keys.add("copy-%s" % hashlib.sha256(repr(texts).encode()).hexdigest()[:8])
    elif mode == "system":
        v, ev, st, smp = _system_case(case, ctx, bump)
        evaluations += ev
        states |= st
        sample = smp
        for x in v:
            record(x, {})
        executed = smp.get("executed", case) if smp else case
        if ev > 1:
            keys.add(hashlib.sha256(repr(smp).encode()).hexdigest()[:12])
    elif mode == "retry":
        v, ev, st, smp = _retry_case(case, ctx, bump)
        evaluations += ev
        states |= st
        sample = smp
        for x in v:
            record(x, {})
        executed = smp.get("executed", case) if smp else case
        if ev > 1:
            keys.add(hashlib.sha256(repr({k: val for k, val in (smp or {}).items() if k != "executed"}).encode()).hexdigest()[:12])
    else:
        raise proc.HarnessError("unknown mode %r" % mode)

    if executed.get("failing_units") and executed.get("mode") != "units":
        executed = {"label": case.get("label"), "hash_seed": case.get("hash_seed", 0), "mode": "units", "units": executed["failing_units"]}
    return {
        "violations": violations,
        "executed": executed,
        "evaluations": evaluations,
        "nontrivial_keys": sorted(keys),
        "states": sorted(states),
        "counters": counters,
        "sim_time_s": 0.0,
        "sample": sample if mode not in ("system", "retry") else {k: v for k, v in (sample or {}).items() if k != "executed"},
        "digest": hashlib.sha256(repr((sorted(states), evaluations, sorted(seen_sigs))).encode()).hexdigest()[:16],
    }


def _system_case(case: dict, ctx: dict, bump: typing.Callable) -> typing.Tuple[list, int, set, dict]:
    sandbox = os.path.join(ctx["scratch"], "disk")
    os.makedirs(sandbox)
    world = nnvg.World(sandbox)
    if "dsdl" in case:
        roots, files = case["dsdl"]["roots"], case["dsdl"]["files"]
        if dsdlgen.validate(files, roots, os.path.join(ctx["scratch"], "val")) is not None:
            return [], 0, set(), {}
        ds = None
    else:
        ds = dsdlgen.generate_valid(tuple(case["dsdl_seed"]), os.path.join(ctx["scratch"], "val"))
        roots, files = ds.roots, ds.files
    dsdlgen.materialize_files(files, roots, world.in_dir)
    r = Rng(*case["ops_seed"]) if "ops_seed" in case else Rng(PROP, "directed", case.get("label", ""))
    if "opts" in case:
        opts = dict(case["opts"])
        seeds = list(case["chunk_seeds"])
    else:
        assert ds is not None
        lang = case.get("lang") or r.choice(["c", "cpp", "py"])
        root = r.choice(ds.roots)
        opts = {"lang": lang, "root": root, "lookups": ds.root_deps(root)}
        tpl = case.get("templates", r.choice([None, None, "crlf", "blanky", "by_kind"]) if "lang" not in case else None)
        if tpl and usertpl.usable_for(lang, tpl):
            opts["templates"] = tpl
        if "flags" in case:
            opts.update(case["flags"])
        else:
            if r.chance(1, 2):
                opts["pp_trim"] = True
            if r.chance(1, 2):
                opts["pp_max_empty"] = r.choice([0, 1, 2])
            if r.chance(1, 3):
                # the language's own line-processor configuration, overridden through a --configuration file
                opts["lang_cfg"] = {"limit": r.choice([0, 1, 2, 3, "2", "0"]), "trim": r.choice([True, False, "false", "0", "true", "yes"])}
        seeds = [r.below(1 << 30) for _ in range(4)]
    if opts.get("templates"):
        usertpl.plant(world.tpl_dir, opts["templates"], usertpl.SETS[opts["templates"]])
    executed = {"label": case.get("label"), "hash_seed": case.get("hash_seed", 0), "mode": "system", "dsdl": {"roots": list(roots), "files": dict(files)}, "opts": opts, "chunk_seeds": seeds}
    run_opts = {k: val for k, val in opts.items() if k != "lang_cfg"}
    if opts.get("lang_cfg"):
        lcfg = os.path.join(sandbox, "lang_cfg.yaml")
        with open(lcfg, "w", encoding="utf-8") as f:
            import json as _json

            f.write("nunavut.lang.%s:\n  limit_empty_lines: %s\n  trim_trailing_whitespace: %s\n" % (opts["lang"], _json.dumps(opts["lang_cfg"]["limit"]), _json.dumps(opts["lang_cfg"]["trim"])))
        run_opts["extra_argv"] = ["--configuration", lcfg, "--verbose"]
    base = proc.run_invocation(world.invocation(run_opts))
    if not nnvg.succeeded(base):
        bump("ops", "system-skipped-baseline-fails")
        return [], 1, set(), {"opts": opts, "executed": executed}
    base_tree = _read_tree(world.out_dir)
    v = []
    states = set()
    ev = 1
    # ---- per-file oracle at system level: the same generation with the language's line processors neutralised by a
    # configuration file gives the raw text of every file; the real run must equal the whole-text reference applied to it
    # (this also sees state that a processor carries from one file of a run into the next)
    lang_limit, lang_trim = (1, True) if opts["lang"] in ("c", "py") else (None, False)
    if opts.get("lang_cfg"):
        lang_limit = int(opts["lang_cfg"]["limit"])
        tv = opts["lang_cfg"]["trim"]
        lang_trim = bool(tv) if isinstance(tv, bool) else (str(tv).lower() not in ("false", "0", ""))
    procs = []  # type: typing.List[list]
    if opts.get("pp_trim"):
        procs.append(["trim"])
    if opts.get("pp_max_empty") is not None:
        procs.append(["limit", opts["pp_max_empty"]])
    if lang_limit is not None and not any(p[0] == "limit" for p in procs):
        procs.append(["limit", lang_limit])
    if lang_trim and not any(p[0] == "trim" for p in procs):
        procs.append(["trim"])
    cfg = os.path.join(sandbox, "raw.yaml")
    with open(cfg, "w", encoding="utf-8") as f:
        f.write("nunavut.lang.%s:\n  limit_empty_lines: 1000000\n  trim_trailing_whitespace: false\n" % opts["lang"])
    raw_opts = {k: val for k, val in opts.items() if k not in ("pp_trim", "pp_max_empty", "lang_cfg")}
    raw_opts["extra_argv"] = ["--configuration", cfg, "--verbose"]
    nnvg._force_rmtree(world.out_dir)  # pylint: disable=protected-access
    raw = proc.run_invocation(world.invocation(raw_opts))
    ev += 1
    if nnvg.succeeded(raw):
        raw_tree = _read_tree(world.out_dir)
        bump("ops", "system-raw-run")
        for rel in sorted(base_tree):
            if rel not in raw_tree:
                continue
            try:
                want = reference(raw_tree[rel].decode("utf-8"), procs).encode("utf-8")
            except UnicodeDecodeError:
                continue
            if base_tree[rel] != want:
                got_t = base_tree[rel].decode("utf-8", "replace")
                want_t = want.decode("utf-8", "replace")
                i = next((k for k in range(min(len(got_t), len(want_t))) if got_t[k] != want_t[k]), min(len(got_t), len(want_t)))
                v.append(
                    {
                        "signature": "%s:system:file-differs-from-whole-text-reference:%s" % (PROP, procs_name(procs)),
                        "detail": {"opts": opts, "path": rel, "procs": procs, "at": i, "got": got_t[max(0, i - 30) : i + 30], "want": want_t[max(0, i - 30) : i + 30]},
                    }
                )
                break
        states.add("system-reference|%s|%s|%s" % (opts["lang"], opts.get("templates"), procs_name(procs)))
    else:
        bump("ops", "system-raw-run-fails")
    for cs in seeds:
        nnvg._force_rmtree(world.out_dir)  # pylint: disable=protected-access
        res = proc.run_invocation(world.invocation(run_opts, chunk_seed=cs))
        ev += 1
        for k, n in res.get("probes", {}).items():
            bump("probes", "system:" + k, n)
        bump("ops", "system-rechunked-run")
        states.add("system|%s|%s" % (opts["lang"], opts.get("templates")))
        if not nnvg.succeeded(res):
            v.append({"signature": "%s:system:rechunked-run-fails:%s" % (PROP, res["status"]), "detail": {"opts": opts, "chunk_seed": cs, "exc": res.get("exc_msg", "")[:300]}})
            continue
        tree = _read_tree(world.out_dir)
        for rel in sorted(set(tree) | set(base_tree)):
            if tree.get(rel) != base_tree.get(rel):
                a, b = base_tree.get(rel, b""), tree.get(rel, b"")
                crlf = b"\r\n" in a or b"\r\n" in b
                v.append(
                    {
                        "signature": "%s:system:file-depends-on-chunking:%s" % (PROP, "crlf" if crlf else "lf"),
                        "detail": {"opts": opts, "chunk_seed": cs, "path": rel, "baseline_len": len(a), "rechunked_len": len(b)},
                    }
                )
                break
    return v, ev, states, {"opts": opts, "chunk_seeds": seeds, "executed": executed}


def _retry_case(case: dict, ctx: dict, bump: typing.Callable) -> typing.Tuple[list, int, set, dict]:
    """
    A fault in the middle of a file, then a retry on the SAME generator object (C++ target: no language processors, so
    a generator without processors yields the raw text): every file of the retry must equal the whole-text reference.
    """
    import pathlib

    import pydsdl
    from nunavut import build_namespace_tree
    from nunavut.jinja import DSDLCodeGenerator
    from nunavut.lang import LanguageContextBuilder
    from simkit.seams import Seams

    sandbox = os.path.join(ctx["scratch"], "disk")
    os.makedirs(sandbox)
    world = nnvg.World(sandbox)
    if "dsdl" in case:
        roots, files = case["dsdl"]["roots"], case["dsdl"]["files"]
        if dsdlgen.validate(files, roots, os.path.join(ctx["scratch"], "val")) is not None:
            return [], 0, set(), {}
    else:
        ds = dsdlgen.generate_valid(tuple(case["dsdl_seed"]), os.path.join(ctx["scratch"], "val"))
        roots, files = ds.roots, ds.files
    dsdlgen.materialize_files(files, roots, world.in_dir)
    r = Rng(*case["ops_seed"]) if "ops_seed" in case else Rng(PROP, "directed", case.get("label", ""))
    procs = case.get("procs") or r.choice(PROC_LISTS[2:])
    fault = case.get("fault") or {"file": r.below(3), "write": r.weighted([(r.below(12), 3), (r.below(60), 1)])}
    tpl = case.get("templates") or r.choice(["blanky", "blanky", "crlf"])
    root = case.get("root") or sorted(roots)[0]
    usertpl.plant(world.tpl_dir, tpl, usertpl.SETS[tpl])
    executed = {"label": case.get("label"), "hash_seed": case.get("hash_seed", 0), "mode": "retry", "dsdl": {"roots": list(roots), "files": dict(files)}, "procs": procs, "fault": fault, "templates": tpl, "root": root}
    seams = Seams({"sandbox": sandbox, "clock": dict(nnvg.FROZEN_CLOCK), "sort_enum": True})
    seams.install()
    lctx = LanguageContextBuilder(include_experimental_languages=True).set_target_language("cpp").create()
    types = pydsdl.read_namespace(os.path.join(world.in_dir, root), [os.path.join(world.in_dir, x) for x in roots if x != root], allow_unregulated_fixed_port_id=True)

    def gen(out: str, pps: typing.Optional[list]) -> typing.Any:
        ns = build_namespace_tree(types, os.path.join(world.in_dir, root), out, lctx)
        return ns, DSDLCodeGenerator(ns, templates_dir=pathlib.Path(os.path.join(world.tpl_dir, tpl)), post_processors=pps)

    # the support generator shares the processor objects with the type generator (as create_default_generators and
    # the command line do); its rendered header starts and ends with blank lines
    from nunavut.jinja import SupportGenerator

    sup_dir = usertpl.plant(world.tpl_dir, "blanky-support-cpp", usertpl.SUPPORT_SETS["blanky"]("cpp"))

    def sgen_for(ns: typing.Any, pps: typing.Optional[list]) -> typing.Any:
        return SupportGenerator(ns, support_templates_dir=pathlib.Path(sup_dir), post_processors=pps)

    ns_raw, g_raw = gen(os.path.join(sandbox, "raw"), [])
    g_raw.generate_all(False, True, True, False)
    raw = {os.path.relpath(str(p), os.path.join(sandbox, "raw")): open(str(p), "r", encoding="utf-8", newline="").read() for _, p in ns_raw.get_all_datatypes()}
    for sp in sgen_for(ns_raw, []).generate_all(False, True, False, False):
        raw[os.path.relpath(str(sp), os.path.join(sandbox, "raw"))] = open(str(sp), "r", encoding="utf-8", newline="").read()
    shared_pps = make_procs(procs)
    ns_a, g_a = gen(os.path.join(sandbox, "out"), shared_pps)
    s_a = sgen_for(ns_a, shared_pps)
    seams.fault = {"kind": "write_oserror", "errno": "ENOSPC", "file": seams.wopen_count + fault["file"], "write": fault["write"], "partial": 50}
    seams.fault_fired = None
    aborted = False
    try:
        g_a.generate_all(False, True, True, False)
    except OSError:
        aborted = True
    seams.fault = None
    if aborted and seams.fault_fired:
        bump("probes", "file_aborted_by_write_fault")
    g_a.generate_all(False, True, True, False)  # the retry, same generator object and processor objects
    s_a.generate_all(False, True, False, False)  # support AFTER the type files (API order), the same processor objects
    s_a.generate_all(False, True, False, False)  # ... and once more (regeneration)
    seams.enabled = False
    v = []
    for rel, text in sorted(raw.items()):
        got = open(os.path.join(sandbox, "out", rel), "r", encoding="utf-8", newline="").read()
        want = reference(text, procs)
        if got != want:
            i = next((k for k in range(min(len(got), len(want))) if got[k] != want[k]), min(len(got), len(want)))
            v.append({"signature": "%s:retry:file-differs-from-whole-text-reference-after-aborted-file:%s" % (PROP, "+".join(p[0] for p in procs)), "detail": {"path": rel, "procs": procs, "fault": fault, "aborted": aborted, "at": i, "got": got[max(0, i - 20) : i + 20], "want": want[max(0, i - 20) : i + 20]}})
            break
    bump("ops", "retry-cases")
    return v, 3, {"retry|%s|%s" % (tpl, procs_name(procs))}, {"procs": procs, "fault": fault, "templates": tpl, "aborted": aborted, "executed": executed}


def _read_tree(out: str) -> typing.Dict[str, bytes]:
    tree = {}
    for rel in snapshot.files_of(snapshot.snapshot(out, with_mtime=False)):
        with open(os.path.join(out, rel), "rb") as f:
            tree[rel] = f.read()
    return tree


def reductions(case: dict) -> typing.Iterator[dict]:
    if case.get("mode") == "units":
        units = case["units"]
        if len(units) > 1:
            for i in range(len(units)):
                c = dict(case)
                c["units"] = [units[i]]
                yield c
        for ui, u in enumerate(units):
            text = u["text"]
            for i in range(len(text)):
                nu = dict(u)
                nu["text"] = text[:i] + text[i + 1 :]
                if "cuts" in u:
                    nu["cuts"] = sorted({min(c if c <= i else c - 1, len(nu["text"])) for c in u["cuts"]})
                c = dict(case)
                c["units"] = units[:ui] + [nu] + units[ui + 1 :]
                yield c
            for i in range(len(u.get("cuts", []))):
                nu = dict(u)
                nu["cuts"] = u["cuts"][:i] + u["cuts"][i + 1 :]
                c = dict(case)
                c["units"] = units[:ui] + [nu] + units[ui + 1 :]
                yield c
            for i in range(len(u["procs"])):
                if len(u["procs"]) > 1:
                    nu = dict(u)
                    nu["procs"] = u["procs"][:i] + u["procs"][i + 1 :]
                    c = dict(case)
                    c["units"] = units[:ui] + [nu] + units[ui + 1 :]
                    yield c
    elif case.get("mode") == "system" and "opts" in case:
        if len(case["chunk_seeds"]) > 1:
            for s in case["chunk_seeds"]:
                c = dict(case)
                c["chunk_seeds"] = [s]
                yield c
        for k in sorted(case["opts"]):
            if k in ("lang", "root", "lookups", "templates"):
                continue
            c = dict(case)
            c["opts"] = {kk: vv for kk, vv in case["opts"].items() if kk != k}
            yield c
        yield from nnvg.reduce_dsdl(case)
