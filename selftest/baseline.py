"""Run the repository's pinned suite (guard off - there is no guard) and compare with BASELINE.json's stable_pass."""
import json
import os
import subprocess
import sys
import tempfile
import xml.etree.ElementTree as ET

base = json.load(open("/root/.vp/BASELINE.json"))
repo = sys.argv[1] if len(sys.argv) > 1 else "/repo"
with tempfile.TemporaryDirectory() as d:
    xmlp = os.path.join(d, "junit.xml")
    cmd = [
        "/venv/bin/python", "-m", "pytest", "-ra", "-q", "-p", "no:cacheprovider", "--timeout=900",
        "--continue-on-collection-errors", "--junitxml=" + xmlp,
    ]  # fmt: skip
    env = dict(os.environ)
    env["PYTHONPATH"] = os.path.join(repo, "src")  # the tree under test, not the editable install
    p = subprocess.run(cmd, cwd=repo, stdout=subprocess.PIPE, stderr=subprocess.STDOUT, env=env)
    tree = ET.parse(xmlp)
passed = set()
for tc in tree.iter("testcase"):
    bad = any(ch.tag in ("failure", "error", "skipped") for ch in tc)
    name = "%s::%s" % (tc.get("classname"), tc.get("name"))
    if not bad:
        passed.add(name)
want = set(base["stable_pass"])
missing = sorted(want - passed)
print("stable_pass=%d passed_now=%d missing=%d" % (len(want), len(want & passed), len(missing)))
for m in missing[:40]:
    print("  NOT PASSING:", m)
sys.exit(1 if missing else 0)
