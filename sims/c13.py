"""
C13 - configuration sources are merged with a fixed, order-insensitive precedence (DESIGN section 2, C13).

Honest scope: clock, schedule and fault injection contribute little here; the simulator contributes the seeded
operation *history* against shared process state (a pool of builders, contexts created earlier, documents handed in)
with a small executable reference model, which is what the property's histories quantifier and aliasing clauses need.
"""
import copy
import hashlib
import io
import os
import sys
import typing

from simkit import nnvg, proc
from simkit.rng import Rng

PROP = "C13"
LEVEL = "exploration"
WARM_NUNAVUT = True
RULE = (
    "A case is a history of up to 14 operations on a pool of 1-3 LanguageContextBuilders in one interpreter: new builder, "
    "add_config_files (YAML documents over a key alphabet overlapping the built-in keys - options, extension, named_types, "
    "defaults, custom keys - with scalar, list and nested-map values, including values that change the type of an existing "
    "key), config.update with dict documents, set_target_language_configuration_override with explicit and DefaultValue-"
    "marked values, create, and whole-CLI steps (--list-configuration, probe template printing options) with --configuration "
    "files and option flags; documents may share one sub-object between two keys (YAML anchors), file lists may name one file "
    "twice; API call order between files and overrides is permuted; faults are unreadable or broken YAML in "
    "the middle of a file list. Distinct = digest of the op-kind/key/shape sequence; non-trivial = at least two sources "
    "touched one key, or a context was re-inspected after a later operation on another builder."
)
STATE_MEASURE = "distinct (builder history digest, key) pairs whose effective value was compared with the model"
COMPONENTS = {
    "real": ["nunavut.lang.LanguageContextBuilder / LanguageConfig / Language (c, cpp, py)", "nunavut._utilities.deep_update / DefaultValue", "nunavut.cli (in-process) for --list-configuration and probe-template steps", "PyYAML", "CPython 3.12", "tmpfs"],
    "stub": ["operation history chosen by the scheduler", "broken / unreadable YAML files (fault)", "clock (frozen; irrelevant)"],
}  # fmt: skip
ASSUMPTIONS = [
    "reference model: sources in the order (built-in properties, files and dict documents in the order applied, overrides at create time); deep union; a map replaces a non-map; a DefaultValue never displaces an existing non-default value; later set_override of the same key replaces the earlier one as a whole; the C++ standard shorthands apply their documented group on top",
    "re-using ONE builder for two contexts is documented as sharing configuration ('the config is scoped by the builder') and is not flagged; contexts are re-inspected only after operations on OTHER builders",
    "values are compared after unwrapping DefaultValue; configurations for which Language construction raises are skipped (counted) unless the model predicts the raise",
    "after a failed add_config_files call the builder is treated as indeterminate (no further checks on it); other builders and earlier contexts must be unaffected",
]

LANGS = ["c", "cpp", "py"]
DOCUMENTED_SHORTHAND_KEYS = [
    "variable_array_type_include", "variable_array_type_template", "variable_array_type_constructor_args",
    "allocator_include", "allocator_type", "allocator_is_default_constructible", "ctor_convention",
]  # fmt: skip
SCALARS = [".h", ".hpp", "x", 0, 1, 2, True, False, "little", "any", "c++14", "c++17", "c++17-pmr", "c++20", "", "true", None, None]
TOP_KEYS = ["reserved_identifiers", "extension", "options", "named_types", "custom_key", "custom_map", "limit_empty_lines", "trim_trailing_whitespace", "named_values", "defaults", "stropping_suffix", "stropping_prefix", "namespace_file_stem", "support_namespace", "enable_stropping", "use_standard_types"]
OPT_KEYS = ["target_endianness", "enable_serialization_asserts", "omit_float_serialization_support", "std", "custom_opt", "nested_opt", "cast_format", "enable_override_variable_array_capacity"]
SUB_KEYS = ["a", "b", "boolean", "byte", "deep"]


def n_cases(tier: str) -> int:
    return 7000 if tier == "quick" else 150000


def budget_s(tier: str) -> float:
    return 170.0 if tier == "quick" else 1500.0


def case_timeout_s(tier: str) -> float:
    return 300.0


def directed_cases(seed: int, tier: str) -> typing.List[dict]:
    D = "__default__"
    out = []
    scripts = {
        "issue-329": [
            {"op": "new", "lang": "c"},
            {"op": "files", "b": 0, "docs": [{"options": {"enable_serialization_asserts": True}}]},
            {"op": "override", "b": 0, "key": "options", "value": {"enable_serialization_asserts": {D: False}}},
            {"op": "create", "b": 0},
        ],
        "override-before-file": [
            {"op": "new", "lang": "c"},
            {"op": "override", "b": 0, "key": "options", "value": {"target_endianness": "little"}},
            {"op": "files", "b": 0, "docs": [{"options": {"target_endianness": "big", "custom_opt": 1}}, {"options": {"custom_opt": 2}}]},
            {"op": "create", "b": 0},
        ],
        "type-change-alias": [
            {"op": "new", "lang": "c"},
            {"op": "update", "b": 0, "doc": {"extension": {"a": {"deep": 1}}}},
            {"op": "update", "b": 0, "doc": {"extension": {"a": {"b": 2}}}},
            {"op": "create", "b": 0},
        ],
        "override-map-alias": [
            {"op": "new", "lang": "c"},
            {"op": "override", "b": 0, "key": "custom_key", "value": {"a": {"deep": 1}}},
            {"op": "files", "b": 0, "docs": [{"custom_key": "scalar"}]},
            {"op": "create", "b": 0},
            {"op": "update", "b": 0, "doc": {"custom_key": {"a": {"b": 2}}}},
            {"op": "create", "b": 0},
        ],
        "two-builders": [
            {"op": "new", "lang": "c"},
            {"op": "override", "b": 0, "key": "custom_key", "value": 1},
            {"op": "create", "b": 0},
            {"op": "new", "lang": "c"},
            {"op": "override", "b": 1, "key": "custom_key", "value": 2},
            {"op": "files", "b": 1, "docs": [{"options": {"custom_opt": [1, 2]}}]},
            {"op": "create", "b": 1},
        ],
        "cpp-shorthand": [
            {"op": "new", "lang": "cpp"},
            {"op": "files", "b": 0, "docs": [{"options": {"allocator_type": "mine", "std": "c++14"}}]},
            {"op": "override", "b": 0, "key": "options", "value": {"std": "c++17-pmr"}},
            {"op": "create", "b": 0},
            {"op": "new", "lang": "cpp"},
            {"op": "create", "b": 1},
        ],
        "broken-yaml": [
            {"op": "new", "lang": "c"},
            {"op": "create", "b": 0},
            {"op": "new", "lang": "c"},
            {"op": "files", "b": 1, "docs": [{"custom_key": 1}, "BROKEN", {"custom_key": 2}]},
            {"op": "new", "lang": "py"},
            {"op": "create", "b": 2},
        ],
        "cli-list-configuration": [
            {"op": "cli", "lang": "c", "docs": [{"options": {"enable_serialization_asserts": True, "target_endianness": "big"}}, {"options": {"target_endianness": "little"}, "custom_key": "v"}], "flags": {}, "mode": "list"},
            {"op": "cli", "lang": "c", "docs": [{"options": {"enable_serialization_asserts": False}}], "flags": {"asserts": True, "endianness": "any"}, "mode": "list"},
            {"op": "cli", "lang": "cpp", "docs": [{"options": {"std": "c++20"}}], "flags": {"std": "c++17-pmr"}, "mode": "probe"},
        ],
    }
    for name, script in sorted(scripts.items()):
        out.append({"label": "directed-%s" % name, "ops": script})
    return out


def gen_case(seed: int, index: int, tier: str) -> dict:
    return {"ops_seed": [seed, PROP, "ops", index], "tier": tier}


# ---------------------------------------------------------------------------------------------------------------------
# documents: JSON-friendly; {"__default__": v} stands for DefaultValue(v)

D = "__default__"


def _rand_value(r: Rng, depth: int, allow_default: bool) -> typing.Any:
    k = r.weighted([("scalar", 6), ("list", 1), ("map", 3 if depth < 3 else 0), ("default", 2 if allow_default else 0)])
    if k == "scalar":
        return r.choice(SCALARS)
    if k == "list":
        return [r.choice(SCALARS) for _ in range(r.between(0, 3))]
    if k == "default":
        return {D: r.choice(SCALARS)}
    # (now and then an EMPTY map: a union with nothing - it keeps what is there, and replaces a non-map by an empty map)
    return {r.choice(SUB_KEYS): _rand_value(r, depth + 1, allow_default) for _ in range(r.weighted([(0, 1), (1, 4), (2, 4), (3, 3)]))}


def _rand_section_doc(r: Rng, allow_default: bool) -> dict:
    doc = {}  # type: typing.Dict[str, typing.Any]
    for _ in range(r.between(1, 3)):
        key = r.choice(TOP_KEYS)
        if key == "options" and r.chance(5, 6):
            doc[key] = {r.choice(OPT_KEYS): _rand_value(r, 1, allow_default) for _ in range(r.between(1, 3))}
        elif key in ("named_types", "named_values", "custom_map") and r.chance(3, 4):
            doc[key] = {r.choice(SUB_KEYS): _rand_value(r, 1, allow_default) for _ in range(r.between(1, 2))}
        elif key == "defaults":
            doc[key] = {r.choice(["c++17-pmr", "c++20", "mine"]): {r.choice(OPT_KEYS): r.choice(SCALARS)}}
        elif key == "reserved_identifiers":
            doc[key] = r.sample(["value", "data", "count", "flags", "velocity", "x", "self_", "zebra"], r.between(0, 4))  # (a list: replaced as a whole)
        else:
            doc[key] = _rand_value(r, 0, allow_default)
    return doc


def apply_alias(doc: typing.Any, alias: typing.Optional[list]) -> typing.Any:
    """the document with doc[alias_to] made the SAME object as doc[alias_from] (a map), when that is possible"""
    if not alias or not isinstance(doc, dict):
        return doc
    _, k_from, k_to = alias
    if k_from == k_to or not isinstance(doc.get(k_from), dict) or set(doc[k_from].keys()) == {D}:
        return doc
    doc = dict(doc)
    doc[k_to] = doc[k_from]
    return doc


def to_runtime(v: typing.Any, memo: typing.Optional[dict] = None) -> typing.Any:
    """JSON document -> what is handed to nunavut ({"__default__": x} -> DefaultValue(x))."""
    from nunavut._utilities import DefaultValue

    memo = {} if memo is None else memo  # one runtime object per document object: shared sub-objects stay shared
    if isinstance(v, dict):
        if id(v) in memo:
            return memo[id(v)]
        if set(v.keys()) == {D}:
            return DefaultValue(to_runtime(v[D], memo))
        out = {}  # type: typing.Dict[str, typing.Any]
        memo[id(v)] = out
        for k, x in v.items():
            out[k] = to_runtime(x, memo)
        return out
    if isinstance(v, list):
        return [to_runtime(x, memo) for x in v]
    return v


def wrap_maps(v: typing.Any, how: typing.Optional[str], depth: int = 0, top_too: bool = False) -> typing.Any:
    """the same document with its nested maps handed over as another kind of Mapping (read-only view, ChainMap, OrderedDict,
    UserDict): the API is typed typing.Mapping / Any, and a caller's frozen or layered configuration is such an object"""
    import collections
    import types

    from nunavut._utilities import DefaultValue

    if not how:
        return v
    if isinstance(v, DefaultValue):
        return v
    if isinstance(v, dict):
        inner = {k: wrap_maps(x, how, depth + 1) for k, x in v.items()}
        if depth == 0 and not top_too:
            return inner
        if how == "proxy":
            return types.MappingProxyType(inner)
        if how == "chain":
            return collections.ChainMap(inner)
        if how == "ordered":
            return collections.OrderedDict(inner)
        return collections.UserDict(inner)
    if isinstance(v, list):
        return [wrap_maps(x, how, depth + 1) for x in v]
    return v


def unwrap(v: typing.Any) -> typing.Any:
    from nunavut._utilities import DefaultValue

    if isinstance(v, DefaultValue):
        return unwrap(v.value)
    if isinstance(v, dict):
        return {k: unwrap(x) for k, x in v.items()}
    if hasattr(v, "items") and not isinstance(v, dict):
        return {k: unwrap(x) for k, x in v.items()}
    if isinstance(v, (list, tuple)):
        return [unwrap(x) for x in v]
    return v


# ---------------------------------------------------------------------------------------------------------------------
# the reference model (from the documentation): values are (value, is_default) trees


class MV:
    """model value: scalar/list leaf with a default mark, or a map"""

    __slots__ = ("v", "d")

    def __init__(self, v: typing.Any, d: bool = False):
        self.v = v
        self.d = d


def model_from_doc(doc: typing.Any) -> typing.Any:
    if isinstance(doc, dict):
        if set(doc.keys()) == {D}:
            inner = model_from_doc(doc[D])
            if isinstance(inner, MV):
                return MV(inner.v, True)
            return MV(model_plain(inner), True)
        return {k: model_from_doc(v) for k, v in doc.items()}
    return MV(copy.deepcopy(doc), False)


def model_plain(m: typing.Any) -> typing.Any:
    if isinstance(m, dict):
        return {k: model_plain(v) for k, v in m.items()}
    return copy.deepcopy(m.v)


def model_merge(target: typing.Any, source: dict) -> dict:
    """deep union with default marking"""
    if not isinstance(target, dict):
        target = {}
    for k, v in source.items():
        if isinstance(v, dict):
            target[k] = model_merge(target.get(k), v)
        elif v.d and k in target and not (isinstance(target[k], MV) and target[k].d):
            pass  # a default never displaces an explicit value (or a map)
        else:
            target[k] = MV(copy.deepcopy(v.v), v.d)
    return target


class ModelBuilder:
    def __init__(self, lang: str, builtin: dict):
        self.lang = lang
        self.sections = {k: model_from_doc(v) for k, v in builtin.items()}
        self.overrides = {}  # type: typing.Dict[str, typing.Any]
        self.indeterminate = False
        self.foreign_map_overrides = set()  # type: typing.Set[str]

    @property
    def section(self) -> str:
        return "nunavut.lang.%s" % self.lang

    def apply_doc(self, section: str, doc: dict) -> None:
        self.sections[section] = model_merge(self.sections.get(section), model_from_doc(doc))

    def create(self) -> typing.Tuple[typing.Optional[dict], bool]:
        """returns (effective target section as plain values, model predicts a raise)"""
        if self.overrides:
            self.sections[self.section] = model_merge(self.sections.get(self.section), {k: model_from_doc(v) for k, v in self.overrides.items()})
        sec = self.sections[self.section]
        if self.lang == "py" and isinstance(sec.get("options"), dict):
            # documented for the Python target: "these templates always generate serialization asserts"
            sec["options"]["enable_serialization_asserts"] = MV(True, False)
        if self.lang == "cpp":
            opts = sec.get("options")
            defaults = sec.get("defaults")
            if not isinstance(opts, dict) or "std" not in opts:
                return None, True
            std = model_plain(opts["std"])
            if isinstance(defaults, dict) and isinstance(std, str) and std in defaults and isinstance(defaults[std], dict):
                for k, v in defaults[std].items():
                    opts[k] = copy.deepcopy(v)  # the shorthand sets its group as a unit, on top of everything
            cc = model_plain(opts["ctor_convention"]) if "ctor_convention" in opts else None
            if cc is None:
                return None, True
            if cc != "default" and not ("allocator_type" in opts and model_plain(opts["allocator_type"])):
                return None, True
        return model_plain(sec), False


def run_case(case: dict, ctx: dict) -> dict:
    import yaml
    from nunavut._utilities import DefaultValue
    from nunavut.lang import LanguageClassLoader, LanguageContextBuilder

    counters = {"ops": {}, "faults_fired": {}, "probes": {}}  # type: typing.Dict[str, typing.Dict[str, int]]
    pre_violations = []  # type: typing.List[dict]

    def bump(group: str, key: str, n: int = 1) -> None:
        counters[group][key] = counters[group].get(key, 0) + n

    tier = case.get("tier", ctx.get("tier", "quick"))
    scratch = ctx["scratch"]
    r = Rng(*case["ops_seed"]) if "ops_seed" in case else Rng(PROP, "directed", case.get("label", ""))

    if "ops" in case:
        ops = [dict(o) for o in case["ops"]]
    else:
        ops = []
        nb = 0
        base_lang = r.choice(LANGS)
        for i in range(r.between(4, 14)):
            ro = r.sub("op", i)
            kind = ro.weighted([("new", 2 if nb < 3 else 0), ("files", 4), ("update", 3), ("override", 5), ("create", 5), ("cli", 1), ("edit", 1), ("infer", 1)]) if nb else "new"
            if kind == "new":
                ops.append({"op": "new", "lang": base_lang if ro.chance(3, 4) else ro.choice(LANGS)})
                nb += 1
            elif kind == "files":
                docs = [_rand_section_doc(ro.sub("d", j), False) for j in range(ro.between(1, 3))]  # type: typing.List[typing.Any]
                if ro.chance(1, 8):
                    docs.insert(ro.below(len(docs) + 1), ro.choice(["BROKEN", "MISSING"]))
                o = {"op": "files", "b": ro.below(nb), "docs": docs}
                if ro.chance(1, 6):
                    o["other_section"] = True
                if ro.chance(1, 5):
                    # one sub-object shared by two keys of a document (YAML writes it as anchor + alias)
                    o["alias"] = [ro.below(len(docs)), ro.choice(["custom_map", "named_types", "named_values"]), ro.choice(["custom_map", "named_types", "named_values", "alias_target"])]
                if ro.chance(1, 6):
                    o["via"] = "set_additional_config_files"
                if len(docs) >= 2 and ro.chance(1, 3):
                    # the same file named more than once in one list (a shared file before and after a project file)
                    order = list(range(len(docs)))
                    for _ in range(ro.between(1, 2)):
                        order.insert(ro.below(len(order) + 1), ro.below(len(docs)))
                    o["order"] = order
                ops.append(o)
            elif kind == "update":
                o = {"op": "update", "b": ro.below(nb), "doc": _rand_section_doc(ro.sub("d"), ro.chance(1, 3))}
                if ro.chance(1, 5):
                    o["alias"] = [0, ro.choice(["custom_map", "named_types", "named_values"]), ro.choice(["custom_map", "named_types", "named_values", "alias_target"])]
                elif ro.chance(1, 4):
                    o["maptype"] = ro.choice(["chain", "ordered", "userdict"])
                ops.append(o)
            elif kind == "override":
                key = ro.choice(TOP_KEYS)
                if key == "options":
                    val = {ro.choice(OPT_KEYS): _rand_value(ro.sub("v", j), 1, True) for j in range(ro.between(1, 3))}  # type: typing.Any
                else:
                    val = _rand_value(ro.sub("v"), 0, True)
                o = {"op": "override", "b": ro.below(nb), "key": key, "value": val}
                if key == "extension" and ro.chance(1, 2):
                    o["via"] = "set_target_language_extension"
                if isinstance(val, dict) and set(val.keys()) != {D} and ro.chance(1, 4):
                    o["maptype"] = ro.choice(["chain", "ordered", "userdict"])
                ops.append(o)
            elif kind == "create":
                ops.append({"op": "create", "b": ro.below(nb)})
            elif kind == "infer":
                # no target language is named: it is inferred from the extension, looked up in the MERGED configuration
                # (files may give a language another extension)
                exts = [".h", ".hpp", ".py", ".pyi", ".hh", ".xx"]
                docs = [{"lang": ro.choice(LANGS), "extension": ro.choice(exts)} for _ in range(ro.between(0, 2))]
                ops.append({"op": "infer", "docs": docs, "ext": ro.choice(exts)})
            elif kind == "edit":
                # a caller edits, in place, a list or map the configuration handed out (the only way to ADD one reserved
                # word: overrides replace lists wholesale); that builder is not modelled any further, all OTHER builders,
                # their contexts and every builder made later must not see the edit
                ops.append({"op": "edit", "b": ro.below(nb), "key": ro.choice(["reserved_identifiers", "reserved_identifiers", "named_types", "options"]), "via": ro.choice(["sections", "accessor"])})
            else:
                flags = {}
                if ro.chance(1, 2):
                    flags["asserts"] = True
                if ro.chance(1, 3):
                    flags["endianness"] = ro.choice(["any", "big", "little"])
                if ro.chance(1, 3):
                    flags["omit_float"] = True
                lang = ro.choice(LANGS)
                if lang == "cpp" and ro.chance(1, 2):
                    flags["std"] = ro.choice(["c++14", "c++17", "c++17-pmr", "c++20"])
                if ro.chance(1, 4):
                    flags["ext"] = ro.choice([".h", ".xx"])
                if ro.chance(1, 3):
                    flags["ns_stem"] = ro.choice(["_ns", "stem_x"])
                if ro.chance(1, 4):
                    flags["ns_types"] = True
                if ro.chance(1, 5):
                    flags["override_varlen"] = True
                docs = [
                    {
                        "options": {ro.choice(OPT_KEYS[:4] + ["custom_opt", "enable_override_variable_array_capacity"]): ro.choice(SCALARS[6:14])},
                        **({"custom_key": ro.choice(SCALARS)} if ro.chance(1, 2) else {}),
                        **({"namespace_file_stem": ro.choice(["from_file", "_ns"])} if ro.chance(1, 4) else {}),
                        **({"extension": ro.choice([".ff", ".h"])} if ro.chance(1, 5) else {}),
                    }
                    for _ in range(ro.between(0, 2))
                ]
                o = {"op": "cli", "lang": lang, "docs": docs, "flags": flags, "mode": ro.choice(["list", "list", "probe"])}
                if len(docs) >= 2 and ro.chance(1, 3):
                    o["order"] = [0, 1, ro.below(2)] if ro.chance(1, 2) else [ro.below(2), 0, 1]
                ops.append(o)

    builtin = unwrap(LanguageClassLoader().config.sections())
    # the C++ standard shorthands "set their documented group of options as a unit" (docs/languages.rst lists the keys);
    # the model applies whatever group the configuration under test defines, so the group itself is checked here
    for std_name in ("c++17-pmr", "cetl++14-17"):
        group = (builtin.get("nunavut.lang.cpp", {}).get("defaults") or {}).get(std_name)
        missing = [k for k in DOCUMENTED_SHORTHAND_KEYS if not isinstance(group, dict) or k not in group]
        if missing:
            pre_violations.append({"signature": "%s:shorthand-group-incomplete:%s" % (PROP, std_name), "detail": {"std": std_name, "missing_documented_keys": missing}})
        # ... and nothing but it (besides the standard and flavour the shorthand stands for): any other option in the group would
        # be reset to a built-in value on top of every explicit source, since the group is applied last
        extra = [k for k in (group or {}) if k not in DOCUMENTED_SHORTHAND_KEYS and k not in ("std", "std_flavor")] if isinstance(group, dict) else []
        if extra:
            pre_violations.append({"signature": "%s:shorthand-group-sets-undocumented-option:%s" % (PROP, std_name), "detail": {"std": std_name, "undocumented_keys": sorted(extra)}})
    builders = []  # type: typing.List[typing.Any]
    models = []  # type: typing.List[ModelBuilder]
    contexts = []  # type: typing.List[dict]
    handed_in = []  # type: typing.List[typing.Tuple[str, typing.Any, typing.Any]]
    violations = list(pre_violations)  # type: typing.List[dict]
    states = set()  # type: typing.Set[str]
    trace = []  # type: typing.List[str]
    evaluations = 0
    touched = {}  # type: typing.Dict[typing.Tuple[int, str], int]
    reinspected = False
    file_no = [0]

    def violation(sig: str, detail: dict) -> None:
        if not any(v["signature"] == "%s:%s" % (PROP, sig) for v in violations):
            detail = dict(detail)
            detail["history"] = trace[-14:]
            violations.append({"signature": "%s:%s" % (PROP, sig), "detail": detail})

    def write_yaml(section: str, doc: typing.Any) -> str:
        file_no[0] += 1
        # (named so that the order in which files are given is unrelated to the lexicographic order of their paths)
        p = os.path.join(scratch, "%s-cfg%d.yaml" % (hashlib.sha256(b"cfg%d" % file_no[0]).hexdigest()[:4], file_no[0]))
        if doc == "MISSING":
            return p + ".does-not-exist"
        with open(p, "w", encoding="utf-8") as f:
            if doc == "BROKEN":
                f.write("nunavut.lang.c:\n  options: [unclosed\n    : : :\n")
            else:
                yaml.safe_dump({section: doc}, f)
        return p

    def first_diff(a: typing.Any, b: typing.Any, path: str = "") -> typing.Optional[str]:
        if isinstance(a, dict) and isinstance(b, dict):
            for k in sorted(set(a) | set(b), key=str):
                if k not in a:
                    return "%s/%s: missing in nunavut, model has %r" % (path, k, b[k])
                if k not in b:
                    return "%s/%s: nunavut has %r, model has nothing" % (path, k, a[k])
                d = first_diff(a[k], b[k], "%s/%s" % (path, k))
                if d:
                    return d
            return None
        if a != b or type(a) is not type(b) and not (isinstance(a, (int, bool)) and isinstance(b, (int, bool)) and a == b):
            return "%s: nunavut %r, model %r" % (path, a, b)
        return None

    def shape(v: typing.Any) -> str:
        if isinstance(v, dict):
            return "D" if set(v.keys()) == {D} else "M"
        return "L" if isinstance(v, list) else "S"

    def check_handed_in() -> None:
        for what, obj, pre in handed_in:
            if unwrap(obj) != pre:
                violation("source-document-modified:%s" % what, {"document_now": repr(unwrap(obj))[:300], "as_handed_in": repr(pre)[:300]})

    def check_contexts(skip_builder: typing.Optional[int]) -> None:
        nonlocal reinspected, evaluations
        for c in contexts:
            if c["stale"] or c["b"] == skip_builder:
                continue
            now = unwrap(c["lctx"].config.sections()[c["section"]])
            evaluations += 1
            if c["b"] != skip_builder and skip_builder is not None:
                reinspected = True
            d = first_diff(now, c["snapshot"])
            if d:
                violation("earlier-context-changed-by-other-builder", {"context_of_builder": c["b"], "difference": d})
            opts_now = unwrap(dict(c["lctx"].get_target_language().get_options()))
            d = first_diff(opts_now, c["options_snapshot"])
            if d:
                violation("earlier-context-options-changed-by-other-builder", {"context_of_builder": c["b"], "difference": d})

    for i, op in enumerate(ops):
        kind = op["op"]
        if kind == "new":
            builders.append(LanguageContextBuilder(include_experimental_languages=True).set_target_language(op["lang"]))
            models.append(ModelBuilder(op["lang"], builtin))
            trace.append("new(%s)" % op["lang"])
            bump("ops", "new")
            check_contexts(len(builders) - 1)
            continue
        if kind == "infer":
            import pathlib

            evaluations += 1
            ib = LanguageContextBuilder(include_experimental_languages=True)
            merged_ext = {sec: (v.get("extension") if isinstance(v, dict) else None) for sec, v in builtin.items()}
            try:
                for d in op["docs"]:
                    sec = "nunavut.lang.%s" % d["lang"]
                    ib.add_config_files(pathlib.Path(write_yaml(sec, {"extension": d["extension"]})))
                    merged_ext[sec] = d["extension"]
                ib.set_target_language_extension(op["ext"])
                got_lang = ib.create().get_target_language().name  # type: typing.Any
            except Exception as ex:  # pylint: disable=broad-except
                got_lang = "raised %s" % type(ex).__name__
            want_lang = next((sec.rsplit(".", 1)[1] for sec, e in merged_ext.items() if e == op["ext"]), "c")
            bump("ops", "infer")
            if got_lang != want_lang and not str(got_lang).startswith("raised"):
                violation("target-language-inferred-from-other-than-the-merged-configuration", {"extension": op["ext"], "files": op["docs"], "inferred": got_lang, "merged_configuration_says": want_lang})
            trace.append("infer(%s,%s)" % (op["ext"], ",".join("%s=%s" % (d["lang"], d["extension"]) for d in op["docs"])))
            check_contexts(-1)
            continue
        if kind == "cli":
            evaluations += 1
            _cli_step(op, scratch, builtin, violation, bump, write_yaml, first_diff)
            trace.append("cli(%s,%s,%d files,%s)" % (op["lang"], op["mode"], len(op["docs"]), sorted(op["flags"])))
            check_contexts(-1)
            check_handed_in()
            continue
        b = op["b"] % len(builders)
        op["b"] = b
        bld, mdl = builders[b], models[b]
        section = mdl.section
        if kind == "files":
            sec = section if not op.get("other_section") else "nunavut.lang.%s" % ("py" if mdl.lang != "py" else "c")
            docs_eff = [apply_alias(d, op.get("alias")) if op.get("alias") and j == op["alias"][0] else d for j, d in enumerate(op["docs"])]
            if any(a is not b_ for a, b_ in zip(docs_eff, op["docs"])):
                bump("probes", "document_with_shared_sub_object")
            paths = [write_yaml(sec, d) for d in docs_eff]
            order = [j for j in op.get("order") or range(len(docs_eff)) if j < len(docs_eff)]
            for j in range(len(docs_eff)):
                if j not in order:
                    order.append(j)
            if len(order) > len(docs_eff):
                bump("probes", "same_file_named_twice_in_one_list")
            paths = [paths[j] for j in order]
            docs_eff = [docs_eff[j] for j in order]
            bad = [d for d in op["docs"] if d in ("BROKEN", "MISSING")]
            try:
                import pathlib

                if op.get("via") == "set_additional_config_files":
                    bld.set_additional_config_files([pathlib.Path(p) for p in paths])
                else:
                    bld.add_config_files(*[pathlib.Path(p) for p in paths])
                raised = None
            except Exception as ex:  # pylint: disable=broad-except
                raised = type(ex).__name__
            if bad:
                bump("faults_fired", "yaml-" + bad[0].lower())
                if raised is None:
                    violation("broken-configuration-file-accepted", {"docs": op["docs"]})
                mdl.indeterminate = True
                for c in contexts:
                    if c["b"] == b:
                        c["stale"] = True
            elif raised is not None:
                mdl.indeterminate = True
                bump("ops", "files-rejected:" + raised)
            else:
                for d in docs_eff:
                    mdl.apply_doc(sec, d)
                    for k in d:
                        touched[(b, k)] = touched.get((b, k), 0) + 1
            for c in contexts:
                if c["b"] == b:
                    c["stale"] = True  # same builder: documented sharing
            trace.append("files(b%d,%s)" % (b, ",".join("+".join("%s:%s" % (k, shape(v)) for k, v in sorted(d.items())) if isinstance(d, dict) else d for d in op["docs"])))
            bump("ops", "files")
        elif kind == "update":
            doc_eff = apply_alias(op["doc"], op.get("alias"))
            if doc_eff is not op["doc"]:
                bump("probes", "document_with_shared_sub_object")
            doc_rt = to_runtime({section: doc_eff})
            pre_image = unwrap(copy.deepcopy(doc_rt))
            if op.get("maptype") and doc_eff is op["doc"]:
                # (depth 0 is the map of sections, depth 1 the section: both stay plain dicts, everything below is wrapped)
                doc_rt = {section: {k: wrap_maps(x, op["maptype"], 1) for k, x in doc_rt[section].items()}}
                bump("probes", "document_with_non_dict_mappings")
            handed_in.append(("config.update", doc_rt, pre_image))
            if op.get("maptype") and doc_eff is op["doc"] and any(isinstance(x, dict) and set(x) != {D} and isinstance(mdl.sections.get(section, {}).get(k), MV) for k, x in doc_eff.items()):
                # (the caller's own kind of Mapping lands where the configuration holds a scalar: see "create")
                mdl.indeterminate = True
                bump("probes", "foreign_mapping_replaces_scalar_not_modelled")
            try:
                bld.config.update(doc_rt)
                mdl.apply_doc(section, doc_eff)
                for k in doc_eff:
                    touched[(b, k)] = touched.get((b, k), 0) + 1
            except Exception as ex:  # pylint: disable=broad-except
                mdl.indeterminate = True
                bump("ops", "update-rejected:" + type(ex).__name__)
            for c in contexts:
                if c["b"] == b:
                    c["stale"] = True
            trace.append("update(b%d,%s)" % (b, "+".join("%s:%s" % (k, shape(v)) for k, v in sorted(op["doc"].items()))))
            bump("ops", "update")
        elif kind == "override":
            val_rt = to_runtime(op["value"])
            if isinstance(val_rt, (dict, list)):
                pre_image = unwrap(copy.deepcopy(val_rt))
                if op.get("maptype"):
                    val_rt = wrap_maps(val_rt, op["maptype"], 0, top_too=True)
                    mdl.foreign_map_overrides.add(op["key"])
                    bump("probes", "override_value_is_non_dict_mapping")
                handed_in.append(("override-value", val_rt, pre_image))
            if op.get("via") == "set_target_language_extension" and op["key"] == "extension":
                bld.set_target_language_extension(val_rt)  # documented as the same call
            else:
                bld.set_target_language_configuration_override(op["key"], val_rt)
            if op["value"] is not None:  # (None means "not given": the CLI passes absent options this way)
                mdl.overrides[op["key"]] = op["value"]
            touched[(b, op["key"])] = touched.get((b, op["key"]), 0) + 1
            trace.append("override(b%d,%s:%s)" % (b, op["key"], shape(op["value"])))
            bump("ops", "override")
        elif kind == "edit":
            try:
                if op["via"] == "accessor" and op["key"] == "reserved_identifiers":
                    handed = bld.config.get_config_value_as_list(section, op["key"])
                elif op["via"] == "accessor":
                    handed = bld.config.get_config_value_as_dict(section, op["key"])
                else:
                    handed = bld.config.sections()[section][op["key"]]
                if isinstance(handed, list):
                    handed.append("zebra_%d" % i)
                elif hasattr(handed, "__setitem__"):
                    handed["zebra_%d" % i] = "edited"
                bump("ops", "edit-handed-out-%s" % type(handed).__name__)
            except Exception as ex:  # pylint: disable=broad-except
                bump("ops", "edit-rejected:" + type(ex).__name__)
            mdl.indeterminate = True
            for c in contexts:
                if c["b"] == b:
                    c["stale"] = True
            # lists are kept by reference (they are replaced, never merged): the caller's own edit may show in a document the
            # caller handed in earlier - that is the caller editing its document, not the merge modifying it
            handed_in[:] = [(what, obj, copy.deepcopy(unwrap(obj))) for what, obj, _ in handed_in]
            trace.append("edit(b%d,%s,%s)" % (b, op["key"], op["via"]))
        elif kind == "create":
            if any(isinstance(mdl.sections.get(mdl.section, {}).get(k), MV) for k in mdl.foreign_map_overrides):
                # an override whose value is the caller's own kind of Mapping lands where the merged configuration holds a
                # scalar: nunavut stores (a copy of) the foreign object itself, which its dict-typed accessors then refuse as
                # documented - nothing the statement speaks about; this builder is not modelled any further
                mdl.indeterminate = True
                bump("probes", "foreign_mapping_replaces_scalar_not_modelled")
            want, predicts_raise = (None, False) if mdl.indeterminate else mdl.create()
            for c in contexts:
                if c["b"] == b:
                    c["stale"] = True
            try:
                lctx = bld.create()
                raised = None
            except Exception as ex:  # pylint: disable=broad-except
                lctx = None
                raised = "%s: %s" % (type(ex).__name__, ex)
            if lctx is not None:
                # the context is used once, as a generator would: helpers that are built lazily (token encoders, reserved word
                # tables, option views) read the configuration only now
                try:
                    lctx.filter_id_for_target("value", "any")
                    lctx.get_target_language().get_options()
                    bump("probes", "context_used_after_create")
                except Exception as ex:  # pylint: disable=broad-except
                    bump("ops", "use-after-create-raised:" + type(ex).__name__)
            evaluations += 1
            trace.append("create(b%d)%s" % (b, "!" if raised else ""))
            bump("ops", "create")
            if raised is not None:
                bump("ops", "create-raised")
                mdl.indeterminate = True  # a half-applied create is not modelled further
                if predicts_raise:
                    bump("probes", "model_predicted_raise")
            elif not mdl.indeterminate:
                if predicts_raise:
                    violation("invalid-cpp-options-accepted", {"builder": b})
                else:
                    got = unwrap(lctx.config.sections()[section])
                    d = first_diff(got, want)
                    if not d:
                        # sections of the other languages are part of the effective configuration too (templates see
                        # them as ln.<other>.options): files and documents that touch them must merge the same way
                        for other_section, other_model in sorted(mdl.sections.items()):
                            if other_section != section:
                                d = first_diff(unwrap(lctx.config.sections().get(other_section)), model_plain(other_model))
                                if d:
                                    d = "[%s]%s" % (other_section, d)
                                    break
                    for k in (want or {}):
                        states.add("%s|%s" % (hashlib.sha256("|".join(trace).encode()).hexdigest()[:10], k))
                    if d:
                        key = d.split("/")[1].split(":")[0] if "/" in d else "?"
                        violation("effective-value-differs-from-precedence-model:%s" % ("options" if key == "options" else "builtin-key" if key in builtin.get(section, {}) else "custom-key"), {"builder": b, "difference": d})
                    else:
                        lang_obj = lctx.get_target_language()
                        # accessors agree with the merged section
                        for k, v in (want or {}).items():
                            if isinstance(v, dict):
                                try:
                                    acc = unwrap(lang_obj.get_config_value_as_dict(k))  # type: typing.Any
                                except Exception as ex:  # pylint: disable=broad-except
                                    acc = "raised %s" % type(ex).__name__
                                    raw = lctx.config.sections().get(section, {}).get(k)
                                    if isinstance(ex, TypeError) and not isinstance(raw, dict) and hasattr(raw, "items"):
                                        # documented: "TypeError if the value exists but is not a dict" - the merged value is
                                        # the caller's own kind of Mapping (stored where no map was before); the merge itself was
                                        # compared above through the mapping interface
                                        bump("probes", "as_dict_refuses_callers_own_mapping_kind")
                                        continue
                            elif isinstance(v, list):
                                try:
                                    acc = unwrap(lang_obj.get_config_value_as_list(k))
                                except Exception as ex:  # pylint: disable=broad-except
                                    acc = "raised %s" % type(ex).__name__
                            else:
                                # the documented boolean reading of a scalar: "false" (any case), "0" and "" are False,
                                # every other string is True; a null value reads as "" like in get_config_value
                                sv = str(v) if v is not None else ""
                                want_b = not (sv.lower() == "false" or sv == "0" or sv == "")
                                try:
                                    got_b = lang_obj.get_config_value_as_bool(k)  # type: typing.Any
                                except Exception as ex:  # pylint: disable=broad-except
                                    got_b = "raised %s" % type(ex).__name__
                                if got_b is not want_b:
                                    violation("boolean-accessor-disagrees-with-merged-value", {"key": k, "merged": repr(v), "as_bool": got_b, "documented": want_b})
                                acc = lang_obj.get_config_value(k)
                                v = str(v) if v is not None else ""
                            if acc != v:
                                violation("accessor-disagrees-with-merged-value", {"key": k, "accessor": repr(acc)[:200], "merged": repr(v)[:200]})
                        # the well-known properties read the same merged values
                        for key, prop_name in (("extension", "extension"), ("namespace_file_stem", "namespace_output_stem")):
                            v = (want or {}).get(key)
                            if isinstance(v, str):
                                acc = getattr(lang_obj, prop_name)
                                if acc != v:
                                    violation("property-disagrees-with-merged-value", {"key": key, "property": repr(acc)[:200], "merged": repr(v)[:200]})
                        v = (want or {}).get("support_namespace")
                        if isinstance(v, str) and lang_obj.support_namespace != v.split("."):
                            violation("property-disagrees-with-merged-value", {"key": "support_namespace", "property": repr(lang_obj.support_namespace)[:200], "merged": repr(v)[:200]})
                        for key in ("named_types", "named_values"):
                            v = (want or {}).get(key)
                            if isinstance(v, dict) and unwrap(getattr(lang_obj, key)) != v:
                                violation("property-disagrees-with-merged-value", {"key": key, "property": repr(unwrap(getattr(lang_obj, key)))[:200], "merged": repr(v)[:200]})
                        if isinstance((want or {}).get("options"), dict):
                            for k, v in want["options"].items():
                                acc = unwrap(lang_obj.get_option(k))
                                if acc != v:
                                    violation("get-option-disagrees-with-merged-value", {"option": k, "get_option": repr(acc)[:200], "merged": repr(v)[:200]})
                    contexts.append(
                        {
                            "b": b,
                            "lctx": lctx,
                            "section": section,
                            "stale": False,
                            "snapshot": copy.deepcopy(got),
                            "options_snapshot": unwrap(dict(lctx.get_target_language().get_options())),
                        }
                    )
        check_contexts(b)
        check_handed_in()

    multi = sum(1 for v in touched.values() if v >= 2)
    keys = []
    if multi or reinspected:
        keys.append(hashlib.sha256("|".join(trace).encode()).hexdigest()[:16])
    if multi:
        bump("probes", "key_touched_by_several_sources", multi)
    if reinspected:
        bump("probes", "context_reinspected_after_other_builder_op")
    exec_case = {"label": case.get("label"), "hash_seed": case.get("hash_seed", 0), "ops": ops, "tier": tier}
    del DefaultValue
    return {
        "violations": violations,
        "executed": exec_case,
        "evaluations": max(evaluations, 1),
        "nontrivial_keys": keys,
        "states": sorted(states),
        "counters": counters,
        "sim_time_s": 0.0,
        "sample": {"history": trace},
        "digest": hashlib.sha256("|".join(trace + sorted(v["signature"] for v in violations)).encode()).hexdigest()[:16],
    }


def _cli_step(op: dict, scratch: str, builtin: dict, violation: typing.Callable, bump: typing.Callable, write_yaml: typing.Callable, first_diff: typing.Callable) -> None:
    """Whole-CLI step in this interpreter: --list-configuration, or a probe template printing `options`."""
    import nunavut.cli
    import yaml

    lang = op["lang"]
    section = "nunavut.lang.%s" % lang
    paths = [write_yaml(section, d) for d in op["docs"]]
    order = [j for j in op.get("order") or range(len(paths)) if j < len(paths)]
    order += [j for j in range(len(paths)) if j not in order]
    paths = [paths[j] for j in order]
    docs_in_order = [op["docs"][j] for j in order]
    if len(order) > len(op["docs"]):
        bump("probes", "same_file_named_twice_in_one_list")
    flags = op.get("flags", {})
    argv = ["nnvg", "--target-language", lang, "--experimental-languages"]
    if paths:
        argv += ["--configuration"] + paths
    if flags.get("asserts"):
        argv.append("--enable-serialization-asserts")
    if flags.get("omit_float"):
        argv.append("--omit-float-serialization-support")
    if flags.get("endianness"):
        argv += ["--target-endianness", flags["endianness"]]
    if flags.get("std"):
        argv += ["--language-standard", flags["std"]]
    if flags.get("ext"):
        argv += ["--output-extension", flags["ext"]]
    if flags.get("ns_stem"):
        argv += ["--namespace-output-stem", flags["ns_stem"]]
    if flags.get("ns_types"):
        argv.append("--generate-namespace-types")
    if flags.get("override_varlen"):
        argv.append("--enable-override-variable-array-capacity")
    # the model
    m = ModelBuilder(lang, builtin)
    for d in docs_in_order:
        m.apply_doc(section, d)
    language_options = {
        "omit_float_serialization_support": True if flags.get("omit_float") else {D: False},
        "enable_serialization_asserts": True if flags.get("asserts") else {D: False},
        "enable_override_variable_array_capacity": True if flags.get("override_varlen") else {D: False},
    }  # type: typing.Dict[str, typing.Any]
    if flags.get("endianness"):
        language_options["target_endianness"] = flags["endianness"]
    if flags.get("std"):
        language_options["std"] = flags["std"]
    m.overrides["options"] = language_options
    if flags.get("ext"):
        m.overrides["extension"] = flags["ext"]
    if flags.get("ns_stem"):
        m.overrides["namespace_file_stem"] = flags["ns_stem"]  # an explicit command-line value, whatever else is given
    want, predicts_raise = m.create()
    out_dir = os.path.join(scratch, "cli-out-%d" % len(os.listdir(scratch)))
    if op["mode"] == "list":
        argv += ["--outdir", out_dir, "--list-configuration"]
    else:
        tpl = os.path.join(scratch, "probe-tpl")
        os.makedirs(tpl, exist_ok=True)
        with open(os.path.join(tpl, "Any.j2"), "w", encoding="utf-8") as f:
            f.write("{% for k, v in options.items() %}OPT {{ k }}={{ v }}\n{% endfor %}")
        root = os.path.join(scratch, "probe-dsdl", "probe")
        os.makedirs(root, exist_ok=True)
        with open(os.path.join(root, "P.1.0.dsdl"), "w", encoding="utf-8") as f:
            f.write("uint8 x\n@sealed\n")
        argv += ["--templates", tpl, "--outdir", out_dir, "--omit-serialization-support", root]
    old = sys.argv, sys.stdout, sys.stderr
    sys.argv, sys.stdout, sys.stderr = argv, io.StringIO(), io.StringIO()
    status = "ok"
    try:
        nunavut.cli.main()
    except SystemExit as ex:
        status = "ok" if ex.code in (0, None) else "exit"
    except Exception as ex:  # pylint: disable=broad-except
        status = "exc:%s" % type(ex).__name__
    finally:
        stdout = sys.stdout.getvalue()
        sys.argv, sys.stdout, sys.stderr = old
    bump("ops", "cli-" + op["mode"])
    if status != "ok":
        bump("ops", "cli-failed")
        if predicts_raise:
            bump("probes", "model_predicted_raise")
        return
    if predicts_raise:
        violation("invalid-cpp-options-accepted", {"argv": argv[1:]})
        return
    if op["mode"] == "list":
        try:
            doc = yaml.unsafe_load(stdout)
            from sims.c13 import unwrap as _unwrap

            got = _unwrap(doc[section])
        except Exception as ex:  # pylint: disable=broad-except
            violation("list-configuration-not-parseable", {"error": "%s: %s" % (type(ex).__name__, ex), "stdout": stdout[:300]})
            return
        if doc.get("target_language") != lang:
            violation("list-configuration-wrong-target", {"got": doc.get("target_language"), "want": lang})
        d = first_diff(got, want)
        if d:
            violation("cli-list-configuration-differs-from-precedence-model", {"argv": argv[1:], "difference": d, "docs": op["docs"]})
    else:
        ext = (want or {}).get("extension", ".h")
        p = os.path.join(out_dir, "probe", "P_1_0" + str(ext))
        try:
            with open(p, "r", encoding="utf-8") as f:
                lines = [ln[4:].rstrip("\n") for ln in f if ln.startswith("OPT ")]
        except OSError as ex:
            violation("probe-output-missing", {"path": p, "error": str(ex)})
            return
        # the namespace file is named after the effective namespace_file_stem
        stem = (want or {}).get("namespace_file_stem")
        if isinstance(stem, str) and stem and (flags.get("ns_types") or (want or {}).get("has_standard_namespace_files") is True):
            nsf = os.path.join(out_dir, "probe", stem + str(ext))
            if not os.path.isfile(nsf):
                violation("cli-namespace-file-not-named-after-effective-stem", {"argv": argv[1:], "expected": os.path.relpath(nsf, out_dir), "found": sorted(os.listdir(os.path.join(out_dir, "probe"))), "docs": op["docs"]})
            else:
                bump("probes", "namespace_file_named_after_effective_stem")
        got = dict(ln.split("=", 1) for ln in lines)
        for k, v in (want or {}).get("options", {}).items():
            if got.get(k) not in (str(v), "DefaultValue(%s)" % (v,)):
                violation("cli-options-seen-by-template-differ-from-precedence-model", {"argv": argv[1:], "option": k, "template_sees": got.get(k), "model": repr(v), "docs": op["docs"]})
                break


def reductions(case: dict) -> typing.Iterator[dict]:
    ops = case["ops"]
    for i in range(len(ops) - 1, -1, -1):
        if len(ops) > 1 and ops[i]["op"] != "new":
            c = dict(case)
            c["ops"] = ops[:i] + ops[i + 1 :]
            yield c
    for i, op in enumerate(ops):
        if op["op"] in ("files", "cli") and len(op.get("docs", [])) > 1:
            for j in range(len(op["docs"])):
                c = dict(case)
                c["ops"] = [dict(o) for o in ops]
                c["ops"][i]["docs"] = op["docs"][:j] + op["docs"][j + 1 :]
                yield c
        for field in ("doc", "value"):
            if isinstance(op.get(field), dict) and len(op[field]) > 1:
                for k in sorted(op[field]):
                    c = dict(case)
                    c["ops"] = [dict(o) for o in ops]
                    c["ops"][i][field] = {kk: vv for kk, vv in op[field].items() if kk != k}
                    yield c
        if op["op"] == "cli" and op.get("flags"):
            for k in sorted(op["flags"]):
                c = dict(case)
                c["ops"] = [dict(o) for o in ops]
                c["ops"][i]["flags"] = {kk: vv for kk, vv in op["flags"].items() if kk != k}
                yield c
