"""
C16 - template resolution and environment contract (DESIGN section 2, C16).

Planted user template directories with a scheduler-chosen subset of ancestor-named templates, directory enumeration
permuted on every call, a lookup history on one generator (memo cold, warm, warmed by another class first), end-to-end
markers; instance tests against isinstance; additions of filters/tests/globals under colliding names.
"""
import hashlib
import os
import re
import typing

from simkit import dsdlgen, nnvg, proc
from simkit.rng import Rng
from simkit.seams import Seams

PROP = "C16"
LEVEL = "exploration"
RULE = (
    "A case plants one or two user template directories holding a seeded subset of ancestor-named templates (each renders "
    "a marker naming its own origin; helper includes live in sub-directories), builds a generator under a seeded "
    "enumeration-order permutation, runs a seeded lookup history (filter_type_to_template on instances of every pydsdl class "
    "in the input, generate_all, repeated) and compares every answer with a nearest-ancestor model; checks the loader under "
    "both search policies for same-name precedence under every spelling Jinja treats as one name; checks every instance test "
    "against isinstance (and against undefined / foreign values: members of no class); and builds environments "
    "with additional filters/tests/globals whose names are drawn from Jinja built-ins, nunavut's own names, reserved names "
    "and fresh names. Distinct = digest of (template subset, search dirs, language, lookup order, addition names); "
    "non-trivial = the user set lacks the exact class template for at least one looked-up class (an ancestor walk happens) "
    "or an addition collides with an existing name."
)
STATE_MEASURE = "distinct (template-set, lookup-prefix) digests at which a resolution was compared with the model"
COMPONENTS = {
    "real": ["nunavut.jinja.DSDLCodeGenerator / DSDLTemplateLoader / CodeGenEnvironment(Builder)", "vendored Jinja2 loaders and environment", "pydsdl class hierarchy and real parsed instances", "CPython 3.12", "tmpfs"],
    "stub": ["directory enumeration order (seeded permutation per os.listdir/os.scandir call)", "clock (frozen)", "lookup history order chosen by the scheduler"],
}  # fmt: skip
ASSUMPTIONS = [
    "model: first class in the value's inheritance chain whose name is the stem of a top-level template of the applicable set; only the user set when user directories are given (FIND_FIRST, the mode used for type templates); first search directory wins for the same name; user before built-in for the same name under FIND_ALL",
    "where the statement's two readings differ (far ancestor in the user set vs nearer one in the built-in set under FIND_ALL, which no generator uses for type lookup) nothing is asserted; class-named templates are not planted in sub-directories",
    "instance tests on an attribute are expected to look at the attribute's data type for SerializableType classes; for Attribute classes either reading is accepted",
    "an addition 'silently replaces' a name if the environment afterwards holds the user's object under a name that existed before; raising RuntimeError or keeping the old object are both fine",
]

CLASS_TEMPLATES = [
    "Any", "SerializableType", "CompositeType", "StructureType", "UnionType", "DelimitedType", "ServiceType",
    "PrimitiveType", "ArithmeticType", "IntegerType", "UnsignedIntegerType", "SignedIntegerType", "FloatType",
    "BooleanType", "VoidType", "ArrayType", "FixedLengthArrayType", "VariableLengthArrayType",
]  # fmt: skip
DISTRACTORS = ["base", "Common", "structuretype", "StructureTyp", "Type", "Namespace", "StructureType.old", "CompositeType.fields", "Any.bak", "UnionType.v2", "SerializableType.orig"]
NAME_POOL = {
    "filters": ["indent", "join", "upper", "lineprefix", "id", "yamlfy", "type_to_template", "includes", "typename", "macrofy", "full_reference_name", "fresh_filter_a", "fresh_filter_b", "bits2bytes_ceil", "remove_blank_lines", "text_table", "alignment_prefix", "short_reference_name", "to_template_unique_name", "constant_value", "ln.c.macrofy", "ln.cpp.id", "ln.py.id", "ln.c.id", "ln.cpp.full_reference_name", "ln.fresh.filter"],
    "tests": ["defined", "none", "string", "StructureType", "structure", "IntegerType", "integer", "None", "saturated", "deprecated", "service_request", "zero_cost_primitive", "padding", "PaddingField", "constant", "fresh_test_a", "primitive", "variablelengtharray", "Any", "ln.c.zero_cost_primitive", "ln.cpp.fresh_test"],
    "globals": ["ln", "options", "nunavut", "uses_queries", "now_utc", "range", "dict", "lipsum", "cycler", "joiner", "namespace", "typename_unsigned_length", "valuetoken_true", "fresh_global_a", "fresh_global_b"],
}  # fmt: skip


def n_cases(tier: str) -> int:
    return 1800 if tier == "quick" else 20000


def budget_s(tier: str) -> float:
    return 170.0 if tier == "quick" else 1500.0


def case_timeout_s(tier: str) -> float:
    return 300.0


def directed_cases(seed: int, tier: str) -> typing.List[dict]:
    out = []
    sets = [["Any"], ["CompositeType", "Any"], ["StructureType", "CompositeType"], ["SerializableType"], ["UnionType", "ServiceType", "DelimitedType", "StructureType"], []]
    for li, lang in enumerate(["c", "cpp", "py"]):
        for si, s in enumerate(sets):
            out.append({"label": "directed-res-%s-%d" % (lang, si), "dsdl_seed": [seed, PROP, "directed", 0], "plan": {"lang": lang, "d1": s, "d2": None, "enum_seed": 5 + si, "lookups_seed": si, "additions": []}})
    for kind in ("filters", "tests", "globals"):
        for name in NAME_POOL[kind]:
            out.append({"label": "directed-add-%s-%s" % (kind, name), "dsdl_seed": [seed, PROP, "directed", 0], "plan": {"lang": "c", "d1": None, "d2": None, "enum_seed": 1, "lookups_seed": 0, "additions": [[kind, name]]}})
    for ck in ("partial", "builtin", "object"):
        for kind, name in (("filters", "yamlfy"), ("filters", "typename"), ("tests", "deprecated"), ("filters", "id"), ("tests", "StructureType")):
            out.append({"label": "directed-add-%s-%s-%s" % (kind, name, ck), "dsdl_seed": [seed, PROP, "directed", 0], "plan": {"lang": "c", "d1": None, "d2": None, "enum_seed": 1, "lookups_seed": 0, "additions": [[kind, name]], "callable_kind": ck}})
    out.append({"label": "directed-instance-tests", "dsdl_seed": [seed, PROP, "directed", 1], "plan": {"lang": "c", "d1": None, "d2": None, "enum_seed": 2, "lookups_seed": 1, "additions": [], "instance_tests": True}})
    return out


def gen_case(seed: int, index: int, tier: str) -> dict:
    return {"dsdl_seed": [seed, PROP, "dsdl", index // 4], "ops_seed": [seed, PROP, "ops", index], "tier": tier}


def _marker_template(origin: str, name: str) -> str:
    body = "MARK %s/%s {{ T.full_name }}\n" % (origin, name)
    if name in ("StructureType", "UnionType", "CompositeType", "Any", "SerializableType", "DelimitedType"):
        body += "{% include 'inc/helper.j2' %}\n"
    return body


def plant_dir(path: str, origin: str, names: typing.List[str], distractors: typing.List[str], shadows: typing.Sequence[str] = (), dir_names: typing.Sequence[str] = ()) -> None:
    os.makedirs(os.path.join(path, "inc"), exist_ok=True)
    for dn in dir_names:
        # a DIRECTORY whose name looks like the template of a class (a folder of partials kept next to the templates):
        # a directory is never a template
        if dn not in names and dn not in distractors:
            os.makedirs(os.path.join(path, dn + ".j2"), exist_ok=True)
            with open(os.path.join(path, dn + ".j2", "part.j2"), "w", encoding="utf-8") as f:
                f.write("PART %s/%s\n" % (origin, dn))
    os.makedirs(os.path.join(path, "zzz", "deep"), exist_ok=True)
    for n in names:
        with open(os.path.join(path, n + ".j2"), "w", encoding="utf-8") as f:
            f.write(_marker_template(origin, n))
        # a partial of the SAME file name in sub-directories (names are paths: these are other templates, never the
        # template of the class), in directories sorting before and after the file
        for sd in shadows:
            os.makedirs(os.path.join(path, sd), exist_ok=True)
            with open(os.path.join(path, sd, n + ".j2"), "w", encoding="utf-8") as f:
                f.write("SHADOW %s/%s/%s\n" % (origin, sd, n))
    for n in distractors:
        with open(os.path.join(path, n + ".j2"), "w", encoding="utf-8") as f:
            f.write("DISTRACTOR %s/%s\n" % (origin, n))
    with open(os.path.join(path, "inc", "helper.j2"), "w", encoding="utf-8") as f:
        f.write("helper of %s\n" % origin)
    with open(os.path.join(path, "zzz", "deep", "notes.j2"), "w", encoding="utf-8") as f:
        f.write("never used\n")
    with open(os.path.join(path, "README.txt"), "w", encoding="utf-8") as f:
        f.write("not a template\n")
    with open(os.path.join(path, "Namespace.j2"), "w", encoding="utf-8") as f:
        f.write("NAMESPACE %s {{ T.full_name }}\n" % origin)


def model_resolve(cls: type, names: typing.Set[str]) -> typing.Optional[str]:
    for c in cls.__mro__:
        if c is object:
            continue
        if c.__name__ in names:
            return c.__name__
    return None


def instance_pool(types: list) -> list:
    import pydsdl

    pool = []
    seen = set()

    def add(v: typing.Any) -> None:
        if id(v) in seen:
            return
        seen.add(id(v))
        pool.append(v)

    for t in types:
        add(t)
        subs = [t.request_type, t.response_type] if isinstance(t, pydsdl.ServiceType) else [t]
        for s in subs:
            add(s)
            if isinstance(s, pydsdl.DelimitedType):
                add(s.inner_type)
            for a in s.attributes:
                add(a)
                dt = a.data_type
                add(dt)
                while isinstance(dt, pydsdl.ArrayType):
                    dt = dt.element_type
                    add(dt)
    return pool


class _Holder:
    """a foreign (user helper) object that merely has a member called data_type"""

    def __init__(self, data_type: typing.Any):
        self.data_type = data_type


def foreign_values(env: typing.Any, pool: list) -> typing.List[typing.Tuple[str, typing.Any]]:
    out = [("undefined", env.undefined(name="missing")), ("none", None), ("str", "CompositeType"), ("int", 7), ("float", 1.5), ("list", []), ("dict", {"data_type": None})]
    import pydsdl

    for v in pool:
        if isinstance(v, pydsdl.SerializableType):
            out.append(("object-with-data_type-member", _Holder(v)))
            break
    return out


def all_classes(root: type) -> typing.List[type]:
    out = [root]
    for sub in root.__subclasses__():
        out.extend(all_classes(sub))
    return out


def expected_alias(name: str) -> str:
    low = name.lower()
    if len(low) > 4 and low.endswith("type"):
        return low[:-4]
    if len(low) > 5 and low.endswith("field"):
        return low[:-5]
    return low


def run_case(case: dict, ctx: dict) -> dict:
    import pathlib

    import pydsdl

    stats = {}  # type: typing.Dict[str, typing.Any]
    counters = {"ops": {}, "probes": {}}  # type: typing.Dict[str, typing.Dict[str, int]]

    def bump(group: str, key: str, n: int = 1) -> None:
        counters[group][key] = counters[group].get(key, 0) + n

    sandbox = os.path.join(ctx["scratch"], "disk")
    os.makedirs(sandbox)
    world = nnvg.World(sandbox)
    if "dsdl" in case:
        roots, files = case["dsdl"]["roots"], case["dsdl"]["files"]
        if dsdlgen.validate(files, roots, os.path.join(ctx["scratch"], "val")) is not None:
            return {"violations": [], "evaluations": 0, "skipped": 1, "executed": case, "counters": counters}
    else:
        ds = dsdlgen.generate_valid(tuple(case["dsdl_seed"]), os.path.join(ctx["scratch"], "val"), stats=stats)
        roots, files = ds.roots, ds.files
    dsdlgen.materialize_files(files, roots, world.in_dir)
    tier = case.get("tier", ctx.get("tier", "quick"))
    r = Rng(*case["ops_seed"]) if "ops_seed" in case else Rng(PROP, "directed", case.get("label", ""))
    if "plan" in case:
        plan = dict(case["plan"])
    else:
        lang = r.choice(["c", "cpp", "py"])
        use_user = r.chance(3, 4)
        d1 = r.subset(CLASS_TEMPLATES, 1, 3) if use_user else None
        d2 = r.subset(CLASS_TEMPLATES, 1, 3) if use_user and r.chance(1, 3) else None
        adds = []
        if r.chance(1, 2):
            for _ in range(r.between(1, 3)):
                kind = r.choice(["filters", "tests", "globals"])
                adds.append([kind, r.choice(NAME_POOL[kind])])
        plan = {
            "lang": lang,
            "d1": d1,
            "d2": d2,
            "distractors": r.subset(DISTRACTORS, 1, 3),
            "shadows": r.choice([[], [], ["parts"], ["Parts", "zz"], ["parts/deeper", "0old"]]),
            "dir_names": r.subset(CLASS_TEMPLATES, 1, 2) if r.chance(1, 3) else [],
            "enum_seed": r.below(1 << 30) + 1,
            "lookups_seed": r.below(1 << 30),
            "additions": adds,
            "instance_tests": r.chance(1, 4),
            "conventional_names": r.chance(1, 2),
            "callable_kind": r.weighted([("function", 3), ("partial", 1), ("builtin", 1), ("object", 1)]),
            "unreadable_user_template": r.below(1000) + 1 if r.chance(1, 3) else 0,
            "root": r.choice(list(roots)),
        }
    plan.setdefault("root", sorted(roots)[0])
    plan.setdefault("distractors", [])
    lang = plan["lang"]
    exec_case = {"label": case.get("label"), "hash_seed": case.get("hash_seed", 0), "dsdl": {"roots": list(roots), "files": dict(files)}, "plan": plan, "tier": tier}

    from nunavut import build_namespace_tree
    from nunavut._utilities import ResourceSearchPolicy
    from nunavut.jinja import DSDLCodeGenerator
    from nunavut.jinja.loaders import DSDLTemplateLoader
    from nunavut.lang import LanguageContextBuilder

    violations = []  # type: typing.List[dict]
    states = []  # type: typing.List[str]
    keys = []  # type: typing.List[str]
    evaluations = 0

    def violation(sig: str, detail: dict) -> None:
        if not any(v["signature"] == "%s:%s" % (PROP, sig) for v in violations):
            violations.append({"signature": "%s:%s" % (PROP, sig), "detail": detail})

    dirs = []
    for origin, names in (("d1", plan.get("d1")), ("d2", plan.get("d2"))):
        if names is not None:
            p = os.path.join(world.tpl_dir, origin)
            plant_dir(p, origin, list(names), plan["distractors"] if origin == "d1" else [], plan.get("shadows") or (), plan.get("dir_names") or ())
            dirs.append(p)
    user_names = None  # type: typing.Optional[typing.Dict[str, str]]
    if dirs:
        user_names = {}
        for origin, names in (("d2", plan.get("d2")), ("d1", plan.get("d1"))):  # d1 wins for the same name
            for n in names or []:
                user_names[n] = origin
        for n in plan["distractors"]:
            user_names.setdefault(n, "d1")
        user_names["Namespace"] = "d1"
    builtin_dir = os.path.join(os.path.dirname(__import__("nunavut.lang.%s" % lang, fromlist=["x"]).__file__), "templates")
    builtin_names = {os.path.splitext(f)[0] for f in os.listdir(builtin_dir) if f.endswith(".j2")}

    seams = Seams({"sandbox": sandbox, "clock": dict(nnvg.FROZEN_CLOCK), "enum_seed": plan["enum_seed"]})
    seams.install()

    root_dir = os.path.join(world.in_dir, plan["root"])
    lookups = [os.path.join(world.in_dir, x) for x in roots if x != plan["root"]]
    types = pydsdl.read_namespace(root_dir, lookups, allow_unregulated_fixed_port_id=True)
    pool = instance_pool(types)
    lctx = LanguageContextBuilder(include_experimental_languages=True).set_target_language(lang).create()
    out_dir = os.path.join(sandbox, "out")
    ns = build_namespace_tree(types, root_dir, out_dir, lctx)

    # ---- additions: baseline environment first
    adds = [tuple(a) for a in plan.get("additions", [])]
    kw = {}  # type: typing.Dict[str, typing.Any]
    if dirs:
        kw["templates_dir"] = [pathlib.Path(d) for d in dirs] if len(dirs) > 1 else pathlib.Path(dirs[0])
    base_gen = DSDLCodeGenerator(ns, **kw)
    env0 = getattr(base_gen, "_env", None)
    if env0 is None:
        raise proc.HarnessError("seam missing: CodeGenerator._env")
    evaluations += 1
    if adds:
        sentinels = {}
        add_kw = {"additional_filters": {}, "additional_tests": {}, "additional_globals": {}}  # type: typing.Dict[str, typing.Dict[str, typing.Any]]
        for kind, name in adds:
            def make(tag: str, pyname: typing.Optional[str] = None) -> typing.Callable:
                def sentinel(*a: typing.Any, **k: typing.Any) -> str:
                    return "SENTINEL-" + tag

                if pyname:
                    # a user following nunavut's own naming convention (filter_<name> / is_<name>)
                    sentinel.__name__ = pyname
                    sentinel.__qualname__ = pyname
                return sentinel

            conv = {"filters": "filter_%s", "tests": "is_%s"}.get(kind)
            s = make("%s-%s" % (kind, name), conv % name if conv and plan.get("conventional_names") else None) if kind != "globals" else "SENTINEL-GLOBAL-%s" % name
            # what the user hands over need not be a plain function: a functools.partial, a built-in, an object with __call__
            ck = plan.get("callable_kind") or "function"
            if kind != "globals" and ck == "partial":
                import functools

                s = functools.partial(s, "bound")
            elif kind != "globals" and ck == "builtin":
                s = {"filters": str, "tests": callable}[kind]
            elif kind != "globals" and ck == "object":
                class UserCallable:
                    def __init__(self, fn: typing.Callable) -> None:
                        self.fn = fn

                    def __call__(self, *a: typing.Any, **k: typing.Any) -> typing.Any:
                        return self.fn(*a, **k)

                s = UserCallable(s)
            sentinels[(kind, name)] = s
            add_kw["additional_" + kind][name] = s
        gen2 = None
        raised = None
        try:
            gen2 = DSDLCodeGenerator(ns, **dict(kw, **{k: v for k, v in add_kw.items() if v}))
        except Exception as ex:  # pylint: disable=broad-except
            raised = "%s: %s" % (type(ex).__name__, ex)  # (refused loudly - whatever the exception: not a silent replacement)
        evaluations += 1
        bump("ops", "environment-with-additions")
        for kind, name in adds:
            coll0 = getattr(env0, kind)
            existed = name in coll0
            if existed:
                bump("probes", "addition_collides_with_existing_name")
            if gen2 is None:
                if not existed and len(adds) == 1:
                    # a fresh name must not be refused (soft: recorded only)
                    bump("probes", "fresh_name_refused")
                continue
            coll = getattr(gen2._env, kind)  # pylint: disable=protected-access
            now = coll.get(name) if hasattr(coll, "get") else None
            s = sentinels[(kind, name)]
            is_user = now is s or getattr(now, "func", None) is s
            if existed and is_user:
                violation("addition-silently-replaces:%s:%s" % (kind, name), {"kind": kind, "name": name, "lang": lang, "before": repr(coll0.get(name))[:120], "after": repr(now)[:120]})
            keys.append("add|%s|%s|%s" % (kind, name, "raised" if gen2 is None else "kept" if not is_user else "added"))
        if raised is not None:
            bump("probes", "addition_raised")
        # the same additions made on a LIVE environment (add_test / conventional methods on an object), by a caller that catches
        # the refusal and carries on: a refused addition leaves the environment exactly as it was, however often it is tried
        live_gen = DSDLCodeGenerator(ns, **kw)
        live_env = live_gen._env  # pylint: disable=protected-access
        evaluations += 1
        for kind, name in adds:
            if kind == "globals" or not hasattr(live_env, "add_test"):
                continue
            coll = getattr(live_env, kind)
            if name not in coll:
                continue
            before = coll.get(name)
            s_live = sentinels[(kind, name)]
            for attempt in (1, 2, 3):
                try:
                    if kind == "tests":
                        live_env.add_test(name, s_live)
                    else:
                        holder = type("UserFilters", (), {"filter_" + name: staticmethod(s_live) if not isinstance(s_live, type) else s_live})()
                        live_env.add_conventional_methods_to_environment(holder)
                    outcome = "accepted"
                except Exception:  # pylint: disable=broad-except
                    outcome = "refused"
                evaluations += 1
                now = coll.get(name)
                if now is not before and getattr(now, "func", None) is not getattr(before, "func", before):
                    violation("addition-on-live-environment-changes-builtin:%s:%s" % (kind, name.split(".")[0] if name.startswith("ln.") else name), {"kind": kind, "name": name, "attempt": attempt, "outcome": outcome, "before": repr(before)[:120], "after": repr(now)[:120], "lang": lang})
                    break
            bump("probes", "live_environment_addition_retried")

    # ---- resolution: a lookup history on ONE generator, compared with the model after every call
    gen = base_gen
    rl = Rng("lookups", plan["lookups_seed"])
    history = []  # type: typing.List[str]
    order = rl.shuffle(list(range(len(pool))))
    steps = []  # type: typing.List[typing.Any]
    for i in order[: 40 if tier == "quick" else 120]:
        steps.append(("lookup", i))
        if rl.chance(1, 10):
            steps.append(("generate", None))
        if rl.chance(1, 6):
            steps.append(("lookup", i))  # warm repeat
    steps.append(("generate", None))
    names_for_types = set(user_names) if user_names is not None else builtin_names
    walked = False
    for step, arg in steps:
        if step == "lookup":
            v = pool[arg]
            cls = type(v)
            want = model_resolve(cls, names_for_types)
            try:
                got = gen.filter_type_to_template(v)  # type: typing.Optional[str]
                got = os.path.splitext(got)[0] if got is not None else None
            except RuntimeError:
                got = None
            evaluations += 1
            if want is not None and want != cls.__name__:
                walked = True
                bump("probes", "ancestor_walk")
            if want is None:
                bump("probes", "no_template_for_class")
            hkey = hashlib.sha256("|".join(history).encode()).hexdigest()[:10]
            states.append("%s|%s|%s" % (hashlib.sha256(repr(sorted(names_for_types)).encode()).hexdigest()[:8], hkey, cls.__name__))
            if got != want:
                violation(
                    "resolution-differs-from-nearest-ancestor:%s" % ("user" if user_names is not None else "builtin"),
                    {"class": cls.__name__, "got": got, "want": want, "templates": sorted(names_for_types), "history": history[-12:], "lang": lang, "enum_seed": plan["enum_seed"]},
                )
            history.append(cls.__name__)
        else:
            # end to end: the marker in each generated file names the template that was used
            needed = {model_resolve(type(t), names_for_types) for t in types}
            try:
                gen.generate_all(False, True, True, False)
                ok = True
            except Exception as ex:  # pylint: disable=broad-except
                ok = False
                err = "%s: %s" % (type(ex).__name__, ex)
            evaluations += 1
            bump("ops", "generate_all")
            history.append("generate_all")
            if None in needed:
                if ok:
                    violation("generation-succeeds-without-a-template", {"templates": sorted(names_for_types), "lang": lang})
                continue
            if not ok:
                if user_names is not None:
                    violation("generation-fails-although-templates-resolve:%s" % err.split(":")[0], {"error": err[:300], "templates": sorted(names_for_types), "lang": lang})
                continue
            if user_names is None:
                continue
            for t, p in ns.get_all_datatypes():
                want = model_resolve(type(t), names_for_types)
                with open(str(p), "r", encoding="utf-8") as f:
                    first = f.readline().strip()
                m = re.match(r"MARK (d\d)/(\w+) ", first)
                gotm = (m.group(1), m.group(2)) if m else None
                wantm = (user_names[want], want) if want else None
                if gotm != wantm:
                    violation("generated-file-used-wrong-template", {"type": str(t), "got": gotm, "want": wantm, "templates": sorted(names_for_types), "d1": plan.get("d1"), "d2": plan.get("d2"), "lang": lang})
            bump("probes", "markers_checked")
    # ---- a second generator with ANOTHER template set in the same interpreter: nothing may leak between loaders
    if user_names is not None:
        alt_names = builtin_names
        alt_kw = {}  # type: typing.Dict[str, typing.Any]
    else:
        alt_dir = os.path.join(world.tpl_dir, "alt")
        plant_dir(alt_dir, "alt", ["Any", "UnionType"], [])
        alt_names = {"Any", "UnionType", "Namespace"}
        alt_kw = {"templates_dir": pathlib.Path(alt_dir)}
    gen_alt = DSDLCodeGenerator(ns, **alt_kw)
    evaluations += 1
    for i in order[:12]:
        v = pool[i]
        want = model_resolve(type(v), alt_names)
        try:
            got = gen_alt.filter_type_to_template(v)
            got = os.path.splitext(got)[0] if got is not None else None
        except RuntimeError:
            got = None
        evaluations += 1
        if got != want:
            violation(
                "resolution-leaks-between-generators",
                {"class": type(v).__name__, "got": got, "want": want, "first_generator_templates": sorted(names_for_types), "second_generator_templates": sorted(alt_names), "lang": lang},
            )
    bump("probes", "second_generator_other_template_set")
    if walked or (adds and any(k.split("|")[-1] != "added" for k in keys)):
        keys.append(hashlib.sha256(repr((lang, plan.get("d1"), plan.get("d2"), plan["lookups_seed"] % 64, adds)).encode()).hexdigest()[:16])
    else:
        keys = []

    # ---- loader level, both policies: same-name precedence
    if dirs:
        for policy in (ResourceSearchPolicy.FIND_FIRST, ResourceSearchPolicy.FIND_ALL):
            loader = DSDLTemplateLoader(templates_dirs=[pathlib.Path(d) for d in dirs], package_name_for_templates="nunavut.lang.%s" % lang, search_policy=policy)
            evaluations += 1
            for n in sorted(set(user_names or {}) | builtin_names):
                # the same template under the spellings Jinja treats as one name (empty and "." segments are dropped)
                for spelling in ("%s.j2", "/%s.j2", "./%s.j2", "//%s.j2", "/./%s.j2"):
                    try:
                        _, filename, _ = loader.get_source(env0, spelling % n)
                        origin = "d1" if filename.startswith(dirs[0] + os.sep) else "d2" if len(dirs) > 1 and filename.startswith(dirs[1] + os.sep) else "builtin"
                    except Exception:  # pylint: disable=broad-except
                        origin = None
                    evaluations += 1
                    want_o = (user_names or {}).get(n)
                    if want_o is None:
                        want_o = "builtin" if (n in builtin_names and policy == ResourceSearchPolicy.FIND_ALL) else None
                    if origin != want_o:
                        violation(
                            "get-source-precedence:%s%s" % (policy.name, "" if spelling == "%s.j2" else ":name-spelling"),
                            {"template": spelling % n, "got": origin, "want": want_o, "d1": plan.get("d1"), "d2": plan.get("d2"), "lang": lang},
                        )
            # a fault while reading the user's template (not valid UTF-8 - a Latin-1 copyright sign in a comment; an I/O
            # error) is an error: the same-named built-in template must never be used silently in its place
            victim = sorted(builtin_names)[plan.get("unreadable_user_template", 0) % len(builtin_names)]
            vpath = os.path.join(dirs[0], victim + ".j2")
            if policy == ResourceSearchPolicy.FIND_ALL and plan.get("unreadable_user_template") and not os.path.isdir(vpath):
                saved = open(vpath, "rb").read() if os.path.exists(vpath) else None
                with open(vpath, "wb") as f:
                    f.write(b"{# \xa9 ACME #}\nUSER " + victim.encode() + b"\n")
                try:
                    loader2 = DSDLTemplateLoader(templates_dirs=[pathlib.Path(d) for d in dirs], package_name_for_templates="nunavut.lang.%s" % lang, search_policy=policy)
                    try:
                        _, filename, _ = loader2.get_source(env0, victim + ".j2")
                        got_o = "user" if filename.startswith(dirs[0] + os.sep) else "builtin"
                    except Exception as ex:  # pylint: disable=broad-except
                        got_o = "raised"
                    evaluations += 1
                    bump("probes", "user_template_unreadable:%s" % got_o)
                    if got_o == "builtin":
                        violation("unreadable-user-template-silently-replaced-by-builtin", {"template": victim, "lang": lang})
                    # ... and the same for a read the kernel refuses (EACCES / EIO on a file that is there)
                    with open(vpath, "wb") as f:
                        f.write(b"USER " + victim.encode() + b"\n")
                    seams.read_faults = {os.path.join(os.path.basename(dirs[0]), victim + ".j2"): "EACCES" if plan["unreadable_user_template"] % 2 else "EIO"}
                    try:
                        loader3 = DSDLTemplateLoader(templates_dirs=[pathlib.Path(d) for d in dirs], package_name_for_templates="nunavut.lang.%s" % lang, search_policy=policy)
                        try:
                            _, filename, _ = loader3.get_source(env0, victim + ".j2")
                            got_o = "user" if filename.startswith(dirs[0] + os.sep) else "builtin"
                        except Exception:  # pylint: disable=broad-except
                            got_o = "raised"
                    finally:
                        seams.read_faults = {}
                    evaluations += 1
                    bump("probes", "user_template_read_refused:%s" % got_o)
                    if got_o == "builtin":
                        violation("unreadable-user-template-silently-replaced-by-builtin", {"template": victim, "lang": lang, "fault": "read refused"})
                finally:
                    if saved is None:
                        os.remove(vpath)
                    else:
                        with open(vpath, "wb") as f:
                            f.write(saved)
            # a class whose chain holds NO template of the user set: under FIND_ALL the built-in set is all there is for it
            # (both readings of the statement agree), so it resolves exactly as it would without any user directory; under
            # FIND_FIRST the user set is the only set
            user_only = {k for k in (user_names or {})}
            for c in sorted({type(v) for v in pool} | {getattr(pydsdl, n) for n in CLASS_TEMPLATES if hasattr(pydsdl, n)}, key=lambda x: x.__name__):
                if model_resolve(c, user_only) is not None:
                    continue
                want = model_resolve(c, builtin_names) if policy == ResourceSearchPolicy.FIND_ALL else None
                try:
                    res = loader.type_to_template(c)
                except Exception as ex:  # pylint: disable=broad-except
                    res = "raised %s" % type(ex).__name__
                evaluations += 1
                got = os.path.splitext(os.path.basename(str(res)))[0] if res is not None else None
                if got != want or (res is not None and any(str(res).startswith(d + os.sep) for d in dirs)):
                    violation("type-to-template-without-user-template-in-chain:%s" % policy.name, {"class": c.__name__, "got": str(res), "want": want, "d1": plan.get("d1"), "d2": plan.get("d2"), "dir_names": plan.get("dir_names"), "lang": lang})
            # whatever a class resolves to, it resolves to the same thing on a loader whose templates were LISTED before (by the
            # caller, by Jinja's Environment.list_templates()) and again after the listing on the same loader
            classes = sorted({type(v) for v in pool} | {getattr(pydsdl, n) for n in CLASS_TEMPLATES if hasattr(pydsdl, n)}, key=lambda x: x.__name__)
            listed_loader = DSDLTemplateLoader(templates_dirs=[pathlib.Path(d) for d in dirs], package_name_for_templates="nunavut.lang.%s" % lang, search_policy=policy)
            try:
                listed_loader.list_templates()
                list(listed_loader.get_templates())
            except Exception:  # pylint: disable=broad-except
                pass
            plain_loader = DSDLTemplateLoader(templates_dirs=[pathlib.Path(d) for d in dirs], package_name_for_templates="nunavut.lang.%s" % lang, search_policy=policy)  # (never listed)
            for c in classes:
                try:
                    r_plain = plain_loader.type_to_template(c)
                    r_listed = listed_loader.type_to_template(c)
                    third = DSDLTemplateLoader(templates_dirs=[pathlib.Path(d) for d in dirs], package_name_for_templates="nunavut.lang.%s" % lang, search_policy=policy)
                    third.type_to_template(classes[0])
                    third.list_templates()
                    r_again = third.type_to_template(c)
                except Exception as ex:  # pylint: disable=broad-except
                    r_plain, r_listed, r_again = "raised %s" % type(ex).__name__, None, None
                evaluations += 1
                if not (str(r_plain) == str(r_listed) == str(r_again)):
                    violation("type-to-template-depends-on-an-earlier-listing:%s" % policy.name, {"class": c.__name__, "fresh": str(r_plain), "after_listing_on_another_loader": str(r_listed), "after_listing_on_the_same_loader": str(r_again), "d1": plan.get("d1"), "d2": plan.get("d2"), "lang": lang})
                    break
            # exact class template present in the user set: user wins under both policies
            for n in sorted(set(plan.get("d1") or []) | set(plan.get("d2") or [])):
                cls = getattr(pydsdl, n, None)
                if cls is None:
                    continue
                res = loader.type_to_template(cls)
                if res is None or os.path.splitext(os.path.basename(str(res)))[0] != n:
                    violation("type-to-template-ignores-user-template:%s" % policy.name, {"class": n, "got": str(res), "lang": lang})
            bump("ops", "loader-policy-" + policy.name)

    # ---- instance tests
    if plan.get("instance_tests"):
        tests = env0.tests
        classes = all_classes(pydsdl.SerializableType) + all_classes(pydsdl.Attribute)
        for c in classes:
            for tname in (c.__name__, expected_alias(c.__name__)):
                if tname not in tests:
                    violation("instance-test-missing", {"class": c.__name__, "test": tname})
                    continue
                fn = tests[tname]
                # values that are no PyDSDL objects at all are members of no type class: the test answers "no" (an
                # undefined value - `x.element_type is composite` on a non-array - included), it does not raise and does
                # not classify a foreign object by some member it happens to have
                for label, v in foreign_values(env0, pool):
                    evaluations += 1
                    try:
                        got_f = bool(fn(v))  # type: typing.Any
                    except Exception as ex:  # pylint: disable=broad-except
                        got_f = "raised %s" % type(ex).__name__
                    if got_f is not False:
                        violation("instance-test-on-foreign-value:%s" % label, {"class": c.__name__, "test": tname, "value": label, "got": got_f})
                for v in pool:
                    evaluations += 1
                    got = bool(fn(v))
                    if isinstance(v, pydsdl.Attribute):
                        if issubclass(c, pydsdl.Attribute):
                            okv = got in (isinstance(v, c), isinstance(v.data_type, c))
                        else:
                            okv = got == isinstance(v.data_type, c)
                    else:
                        okv = got == isinstance(v, c)
                    if not okv:
                        violation("instance-test-disagrees-with-isinstance", {"class": c.__name__, "test": tname, "value": repr(v)[:120], "got": got})
        bump("ops", "instance-tests", len(classes))
        keys.append("instance-tests-%d-%d" % (len(classes), len(pool)))

    seams.enabled = False
    counters["dsdl"] = {k: v for k, v in stats.items() if isinstance(v, int)}
    return {
        "violations": violations,
        "executed": exec_case,
        "evaluations": evaluations,
        "nontrivial_keys": keys,
        "states": sorted(set(states)),
        "counters": counters,
        "sim_time_s": 0.0,
        "sample": {"plan": plan, "lookup_history": history[:20]},
        "digest": hashlib.sha256(repr((sorted(set(states)), keys)).encode()).hexdigest()[:16],
    }


def reductions(case: dict) -> typing.Iterator[dict]:
    plan = case["plan"]
    for k in ("d1", "d2"):
        names = plan.get(k)
        if names:
            for i in range(len(names)):
                c = dict(case)
                c["plan"] = dict(plan)
                c["plan"][k] = names[:i] + names[i + 1 :]
                yield c
    if plan.get("d2") is not None:
        c = dict(case)
        c["plan"] = dict(plan, d2=None)
        yield c
    adds = plan.get("additions", [])
    for i in range(len(adds)):
        c = dict(case)
        c["plan"] = dict(plan, additions=adds[:i] + adds[i + 1 :])
        yield c
    if plan.get("distractors"):
        c = dict(case)
        c["plan"] = dict(plan, distractors=[])
        yield c
    if plan.get("instance_tests") and adds:
        c = dict(case)
        c["plan"] = dict(plan, instance_tests=False)
        yield c
    yield from nnvg.reduce_dsdl(case)
