"""
C10 - per-type output ignores sibling types, processing order and earlier runs (DESIGN section 2, C10).

One long-lived interpreter executes a scheduler-chosen history of generator invocations under frozen ambient
state (fixed clock, location, hash seed, sorted enumeration), because the shared process state is the subject.
Oracle: the bytes of each generated type file equal those of a fresh-process generation of the namespace.
"""
import base64
import gzip
import hashlib
import io
import os
import pickle
import re
import sys
import typing

from simkit import dsdlgen, nnvg, proc, snapshot, usertpl
from simkit.rng import Rng
from simkit.seams import Seams

PROP = "C10"
LEVEL = "exploration"
RULE = (
    "A case is a history of 3-8 generator invocations inside one interpreter over one seeded DSDL namespace set. Each "
    "invocation chooses: root namespace, a dependency-closed subset of its types (API: filtered type list; CLI: only "
    "the subset's files on disk), a processing-order permutation (type list, get_nested_namespaces, get_nested_types), "
    "language, built-in or user templates (incl. a set with leading/trailing blank lines and unique-name filters), "
    "line post-processors, API or CLI entry, reuse of the previous generator object, and optionally an injected "
    "exception at the k-th output file that aborts it and leaves process state dirty. Distinct = digest of the "
    "history's (subset size class, order, language, templates, post-processors, entry, reuse, abort) sequence; "
    "non-trivial = at least one type file was compared after an earlier invocation, in a proper subset or permuted order."
)
STATE_MEASURE = "distinct (history prefix digest, subset, order) triples at which a type file was compared"
COMPONENTS = {
    "real": ["nunavut API and CLI (namespace tree, generators, post-processors, template environment and caches, UniqueNameGenerator, lru_caches)", "pydsdl", "vendored Jinja2", "CPython 3.12 (one interpreter per history; reference runs in fork()ed pristine children)", "tmpfs"],
    "stub": ["clock (frozen)", "directory enumeration (sorted)", "processing order (public accessors and the type list wrapped to yield a scheduler-chosen permutation)", "fault injector (exception at the k-th mutating call)", "PYTHONHASHSEED fixed per worker"],
}  # fmt: skip
ASSUMPTIONS = [
    "the reference is the whole namespace generated in identity order in a pristine fork()ed child under the same frozen ambient state; only type files are compared (namespace and support files legitimately depend on the company)",
    "files of an aborted invocation are not judged; the next invocation's are",
]

LANGS = ["c", "cpp", "py"]


def n_cases(tier: str) -> int:
    return 520 if tier == "quick" else 6000


def budget_s(tier: str) -> float:
    return 170.0 if tier == "quick" else 1500.0


def case_timeout_s(tier: str) -> float:
    return 420.0


def directed_cases(seed: int, tier: str) -> typing.List[dict]:
    out = []
    for li, lang in enumerate(LANGS):
        for tpl in (None, "blanky"):
            base = {"lang": lang, "templates": tpl, "pp": {"max_empty": 1 if tpl else None, "trim": False}}
            scripts = {
                "subset-then-whole": [dict(base, subset_pick=0), dict(base)],
                "permuted": [dict(base, order_seed=11), dict(base, order_seed=12)],
                "abort-then-whole": [dict(base, abort_at=2), dict(base)],
                "same-twice": [dict(base), dict(base), dict(base, entry="cli")],
                "one-call-helper-over-edited-inputs": [{"lang": lang, "entry": "gt"}, {"lang": lang, "entry": "gt", "variant": True}, {"lang": lang, "entry": "gt"}, {"lang": lang, "entry": "gt", "omit_ser": True}],
                "one-call-helper-other-language-first": [{"lang": LANGS[(li + 1) % 3], "entry": "gt"}, {"lang": lang, "entry": "gt"}, {"lang": "html", "entry": "gt"}, {"lang": lang, "entry": "gt", "omit_ser": True}],
                "shared-context-alternating-inputs": [dict(base, share_lctx=True, root_pick=0), dict(base, share_lctx=True, root_pick=1, variant=True), dict(base, share_lctx=True, root_pick=0), dict(base, share_lctx=True, root_pick=1), dict(base, share_lctx=True, root_pick=0, variant=True), dict(base, share_lctx=True, root_pick=1)],
                "template-raises-mid-line-then-retry": [dict(base, abort_at=1, abort_style="stream", abort_file=1, abort_write=3), dict(base), dict(base, abort_at=1, abort_style="stream", abort_file=0, abort_write=1), dict(base, reuse=True)],
                "abort-mid-file-then-reuse": [dict(base, abort_at=5, abort_style="write"), dict(base, reuse=True), dict(base)],
                "abort-on-empty-line-then-reuse": [dict(base, omit_ser=True, abort_at=1, abort_style="write", abort_file=0, abort_write=2), dict(base, omit_ser=True, reuse=True), dict(base, omit_ser=True, abort_at=1, abort_style="write", abort_file=1, abort_write=9), dict(base, omit_ser=True, reuse=True)],
                "edited-inputs-first": [dict(base, variant=True), dict(base), dict(base, variant=True)],
                "other-support-namespace-first": [dict(base), dict(base, support_ns="acme.support"), dict(base)],
                "shared-context-other-whitespace-control": [dict(base, share_lctx=True), dict(base, share_lctx=True, trim_blocks=True, lstrip_blocks=True), dict(base, share_lctx=True)],
                "custom-reserved-identifiers-first": [dict(base, reserved=["value", "data", "a", "x"]), dict(base), dict(base, entry="cli")],
                "reuse": [dict(base), dict(base, reuse=True)],
                "reuse-other-omit": [dict(base, omit_ser=True), dict(base, reuse=True, omit_ser=False), dict(base, reuse=True, omit_ser=True)],
                "other-lang-first": [dict(base, lang=LANGS[(li + 1) % 3], templates=None, pp={}), dict(base, subset_pick=1)],
            }
            for name, script in sorted(scripts.items()):
                if tier == "quick" and tpl is None and name in ("other-lang-first",) and lang == "cpp":
                    continue
                out.append({"label": "directed-%s-%s-%s" % (name, lang, tpl), "dsdl_seed": [seed, PROP, "directed", li], "script": script})
    # namespaces described by a "_" type; two releases of the definitions in one process (html and py have namespace files)
    described = {
        "roots": ["acme"],
        "files": {
            "acme/_.0.1.dsdl": "# The acme root namespace, release 1.\n@sealed\n",
            "acme/A.1.0.dsdl": "# A type\nuint8 a\n@sealed\n",
            "acme/drive/_.0.1.dsdl": "# Drives of acme.\n@sealed\n",
            "acme/drive/B.1.0.dsdl": "acme.A.1.0 x\nuint16[<=3] y\n@sealed\n",
            "acme/drive/deep/C.1.0.dsdl": "acme.drive.B.1.0[2] bs\n@extent 64 * 8\n",
        },
    }
    for lang in ("html", "py"):
        for name, script in (
            ("edited-description", [{"lang": lang}, {"lang": lang, "variant": True}, {"lang": lang}]),
            ("edited-description-first", [{"lang": lang, "variant": True}, {"lang": lang}, {"lang": lang, "entry": "cli"}]),
            ("subset-without-description-first", [{"lang": lang, "subset_pick": 3}, {"lang": lang}, {"lang": lang, "subset_pick": 5}, {"lang": lang}]),
        ):
            out.append({"label": "directed-%s-%s" % (name, lang), "dsdl": described, "script": script})
    return out


def gen_case(seed: int, index: int, tier: str) -> dict:
    return {"dsdl_seed": [seed, PROP, "dsdl", index // 2], "ops_seed": [seed, PROP, "ops", index], "tier": tier}


# ---------------------------------------------------------------------------------------------------------------------
# processing-order seam: public accessors yield a scheduler-chosen permutation

_ORDER = {"seed": None}  # type: typing.Dict[str, typing.Optional[int]]


def install_order_seam() -> None:
    from nunavut._namespace import Namespace

    if not hasattr(Namespace, "get_nested_namespaces") or not hasattr(Namespace, "get_nested_types"):
        raise proc.HarnessError("seam missing: Namespace.get_nested_namespaces/get_nested_types")
    real_ns = Namespace.get_nested_namespaces
    real_ty = Namespace.get_nested_types

    def get_nested_namespaces(self):  # type: ignore
        items = list(real_ns(self))
        if _ORDER["seed"] is None:
            return iter(items)
        items.sort(key=lambda n: n.full_namespace)
        return iter(Rng("order-ns", _ORDER["seed"], self.full_namespace).shuffle(items))

    def get_nested_types(self):  # type: ignore
        view = real_ty(self)
        if _ORDER["seed"] is None:
            return view
        items = sorted(view, key=lambda kv: (kv[0].full_name, kv[0].version.major, kv[0].version.minor))
        return Rng("order-ty", _ORDER["seed"], self.full_namespace).shuffle(items)

    Namespace.get_nested_namespaces = get_nested_namespaces  # type: ignore
    Namespace.get_nested_types = get_nested_types  # type: ignore


def type_key(t: typing.Any) -> str:
    return "%s.%d.%d" % (t.full_name, t.version.major, t.version.minor)


def closure_of(types: list, keys: typing.Iterable[str]) -> typing.List[str]:
    """Dependency closure within the root namespace (lookup types are always available)."""
    import pydsdl

    by_key = {type_key(t): t for t in types}
    out = set()  # type: typing.Set[str]
    stack = [by_key[k] for k in keys if k in by_key]
    while stack:
        t = stack.pop()
        k = type_key(t)
        if k in out:
            continue
        out.add(k)
        subs = [t.request_type, t.response_type] if isinstance(t, pydsdl.ServiceType) else [t]
        for s in subs:
            for f in s.fields:
                dt = f.data_type
                while isinstance(dt, pydsdl.ArrayType):
                    dt = dt.element_type
                if isinstance(dt, pydsdl.CompositeType) and type_key(dt) in by_key:
                    stack.append(by_key[type_key(dt)])
    return sorted(out)


def make_pps(pp: dict) -> list:
    from nunavut._postprocessors import LimitEmptyLines, TrimTrailingWhitespace

    out = []
    if pp.get("trim"):
        out.append(TrimTrailingWhitespace())
    if pp.get("max_empty") is not None:
        out.append(LimitEmptyLines(pp["max_empty"]))
    if pp.get("prog"):
        from nunavut._postprocessors import ExternalProgramEditInPlace

        out.append(ExternalProgramEditInPlace(["fakefmt"]))  # (runs the simulator's in-process fake formatter)
    return out


class Ctx:
    def __init__(self, world: nnvg.World, roots: typing.List[str], files: typing.Dict[str, str]):
        self.world = world
        self.roots = roots
        self.files = files
        self.generators = {}  # type: typing.Dict[str, typing.Any]
        self.gen_out = {}  # type: typing.Dict[str, str]
        self.gen_calls = {}  # type: typing.Dict[str, int]
        self.contexts = {}  # type: typing.Dict[str, typing.Any]


def api_generate(cx: Ctx, op: dict, out_dir: str) -> typing.Dict[str, str]:
    """Returns {type key: output path} of the type files this invocation generated."""
    import pathlib

    import pydsdl
    from nunavut import build_namespace_tree
    from nunavut._generators import create_default_generators
    from nunavut._utilities import YesNoDefault
    from nunavut.lang import LanguageContextBuilder

    root_dir = os.path.join(cx.world.in_dir, op["root"])
    lookups = [os.path.join(cx.world.in_dir, x) for x in op.get("lookups", [])]
    gkey = repr(sorted((k, str(v)) for k, v in op.items() if k not in ("reuse", "abort_at", "abort_style", "abort_file", "abort_write", "order_seed", "omit_ser", "audit")))
    if op.get("reuse") and gkey in cx.generators:
        ns, gen, sgen = cx.generators[gkey]
    else:
        lkey = repr((op["lang"], op.get("support_ns"), op.get("reserved")))
        if op.get("share_lctx") and lkey in cx.contexts:
            lctx = cx.contexts[lkey]  # one LanguageContext serving several generators (documented: contexts are reusable)
        else:
            bld = LanguageContextBuilder(include_experimental_languages=True).set_target_language(op["lang"])
            if op.get("support_ns"):
                bld.set_target_language_configuration_override("support_namespace", op["support_ns"])
            if op.get("reserved"):
                bld.set_target_language_configuration_override("reserved_identifiers", list(op["reserved"]))
            lctx = bld.create()
            cx.contexts[lkey] = lctx
        # (what earlier invocations built is dropped BEFORE the new inputs are read: the new objects then live where the old ones did)
        cx.generators.clear()
        cx.gen_out.clear()
        import gc

        gc.collect()
        types = pydsdl.read_namespace(root_dir, lookups, allow_unregulated_fixed_port_id=True)
        if op.get("subset") is not None:
            keep = set(op["subset"])
            types = [t for t in types if type_key(t) in keep]
        if op.get("order_seed") is not None:
            types = Rng("order-list", op["order_seed"]).shuffle(sorted(types, key=type_key))
        ns = build_namespace_tree(types, root_dir, out_dir, lctx)
        kw = {"post_processors": make_pps(op.get("pp", {}))}  # type: typing.Dict[str, typing.Any]
        if op.get("templates"):
            kw["templates_dir"] = pathlib.Path(os.path.join(cx.world.tpl_dir, op["templates"]))
        if op.get("ns_types"):
            kw["generate_namespace_types"] = YesNoDefault.YES
        if op.get("trim_blocks"):
            kw["trim_blocks"] = True
        if op.get("lstrip_blocks"):
            kw["lstrip_blocks"] = True
        gen, sgen = create_default_generators(ns, **kw)
        # Only the generator objects of the LATEST invocation stay alive (that is what "reuse" means: generate_all() again on
        # the object of the previous invocation). Everything older is dropped and collected like in a long-lived service, so that
        # the memory of earlier namespace trees and pydsdl types is really reused by later ones.
        cx.generators.clear()
        cx.gen_out.clear()
        cx.generators[gkey] = (ns, gen, sgen)
        cx.gen_out[gkey] = out_dir
        import gc

        gc.collect()
    cx.gen_calls[gkey] = cx.gen_calls.get(gkey, 0) + 1
    _ORDER["seed"] = op.get("order_seed")
    try:
        sgen.generate_all(False, True, bool(op.get("omit_ser")), bool(op.get("audit")))
        gen.generate_all(False, True, bool(op.get("omit_ser")), bool(op.get("audit")))
        paths = {type_key(t): str(p) for t, p in ns.get_all_datatypes()}
        # (namespace pseudo-types: nunavut's Namespace is itself a pydsdl.Any for which a file may be generated)
        paths.update({"ns:" + n.full_namespace: str(p) for n, p in ns.get_all_namespaces()})
        return paths
    finally:
        _ORDER["seed"] = None


def cli_generate(cx: Ctx, op: dict, out_dir: str, scratch_in: str) -> typing.Dict[str, str]:
    """In-process nnvg; a subset is realised by materialising only its files."""
    import nunavut.cli
    import pydsdl

    in_dir = cx.world.in_dir
    moved = None
    if op.get("subset") is not None:
        keep_files = {}
        all_types = pydsdl.read_namespace(os.path.join(cx.world.in_dir, op["root"]), [os.path.join(cx.world.in_dir, x) for x in op.get("lookups", [])], allow_unregulated_fixed_port_id=True)
        keep = set(op["subset"])
        keep_paths = {os.path.relpath(str(t.source_file_path), os.path.realpath(cx.world.in_dir)) for t in all_types if type_key(t) in keep}
        for rel, text in cx.files.items():
            if rel.split("/")[0] != op["root"] or rel in keep_paths:
                keep_files[rel] = text
        # the subset lives at the *same* absolute input path (location is frozen): the full set is moved aside
        # (the harness's own file operations are not part of the invocation: no event is counted, no fault can strike here)
        seams_prep = getattr(cx, "seams", None)
        if seams_prep is not None:
            seams_prep.enabled = False
        try:
            moved = in_dir + ".full"
            os.rename(in_dir, moved)
            dsdlgen.materialize_files(keep_files, cx.roots, in_dir)
        finally:
            if seams_prep is not None:
                seams_prep.enabled = True
    o = {"lang": op["lang"], "root": op["root"], "lookups": op.get("lookups", []), "out_abs": out_dir}
    if op.get("templates"):
        o["templates"] = op["templates"]
    pp = op.get("pp", {})
    if pp.get("trim"):
        o["pp_trim"] = True
    if pp.get("max_empty") is not None:
        o["pp_max_empty"] = pp["max_empty"]
    if op.get("ns_types"):
        o["ns_types"] = True
    if op.get("omit_ser"):
        o["omit_ser"] = True
    if op.get("audit"):
        o["auditing"] = True
    if pp.get("prog"):
        o["pp_prog"] = True
    if op.get("trim_blocks"):
        o["trim_blocks"] = True
    if op.get("lstrip_blocks"):
        o["lstrip_blocks"] = True
    argv = cx.world.argv(o)
    old_argv, old_out, old_err = sys.argv, sys.stdout, sys.stderr
    sys.argv, sys.stdout, sys.stderr = argv, io.StringIO(), io.StringIO()
    _ORDER["seed"] = op.get("order_seed")
    try:
        nunavut.cli.main()
    except SystemExit as ex:
        if ex.code not in (0, None):
            raise RuntimeError("nnvg exit %r: %s" % (ex.code, sys.stderr.getvalue()[-300:]))
    finally:
        _ORDER["seed"] = None
        sys.argv, sys.stdout, sys.stderr = old_argv, old_out, old_err
        if moved is not None:
            seams_off = getattr(cx, "seams", None)
            if seams_off is not None:
                seams_off.enabled = False
            try:
                nnvg._force_rmtree(in_dir)  # pylint: disable=protected-access
                os.rename(moved, in_dir)
            finally:
                if seams_off is not None:
                    seams_off.enabled = True
    return {}


_BLOB = re.compile(r"(_restore_constant_\(\n)((?:\s*'[^'\n]*'\n)+)(\s*\))")


def _norm_model(blob_lines: str) -> typing.Optional[bytes]:
    """Re-pickle a _MODEL_ blob with pydsdl's lazily populated memoization caches dropped."""
    try:
        b85 = "".join(eval(ln.strip()) for ln in blob_lines.strip().split("\n"))  # pylint: disable=eval-used
        obj = pickle.loads(gzip.decompress(base64.b85decode(b85)))

        class P(pickle.Pickler):
            def reducer_override(self, o: typing.Any) -> typing.Any:
                if type(o).__name__ == "MemoizationOperator" and hasattr(o, "_child"):
                    return (type(o), (o._child,))  # pylint: disable=protected-access
                return NotImplemented

        buf = io.BytesIO()
        P(buf, protocol=4).dump(obj)
        return buf.getvalue()
    except Exception:  # pylint: disable=broad-except
        return None


def classify_diff(lang: str, a: bytes, b: bytes) -> str:
    if lang == "py":
        try:
            ta, tb = a.decode("utf-8"), b.decode("utf-8")
        except UnicodeDecodeError:
            return "bytes"
        ba, bb = _BLOB.findall(ta), _BLOB.findall(tb)
        if ba and len(ba) == len(bb) and _BLOB.sub(r"\1<blob>\3", ta) == _BLOB.sub(r"\1<blob>\3", tb):
            for (_, xa, _), (_, xb, _) in zip(ba, bb):
                if xa == xb:
                    continue
                na, nb = _norm_model(xa), _norm_model(xb)
                if na is None or nb is None or na != nb:
                    return "py-model-blob"
            return "py-model-pickles-pydsdl-memoization-caches"
    return "bytes"


def _read_types_tree(out_dir: str) -> typing.Dict[str, bytes]:
    tree = {}
    for rel in snapshot.files_of(snapshot.snapshot(out_dir, with_mtime=False)):
        with open(os.path.join(out_dir, rel), "rb") as f:
            tree[rel] = f.read()
    return tree


def run_case(case: dict, ctx: dict) -> dict:
    stats = {}  # type: typing.Dict[str, typing.Any]
    counters = {"ops": {}, "faults_fired": {}, "probes": {}}  # type: typing.Dict[str, typing.Dict[str, int]]

    def bump(group: str, key: str, n: int = 1) -> None:
        counters[group][key] = counters[group].get(key, 0) + n

    sandbox = os.path.join(ctx["scratch"], "disk")
    os.makedirs(sandbox)
    world = nnvg.World(sandbox)
    if "dsdl" in case:
        roots, files = case["dsdl"]["roots"], case["dsdl"]["files"]
        if dsdlgen.validate(files, roots, os.path.join(ctx["scratch"], "val")) is not None:
            return {"violations": [], "evaluations": 0, "skipped": 1, "executed": case, "counters": counters}
        ds = None
    else:
        ds = dsdlgen.generate_valid(tuple(case["dsdl_seed"]), os.path.join(ctx["scratch"], "val"), stats=stats)
        roots, files = ds.roots, ds.files
    dsdlgen.materialize_files(files, roots, world.in_dir)
    for name, tfiles in usertpl.SETS.items():
        usertpl.plant(world.tpl_dir, name, tfiles)
    tier = case.get("tier", ctx.get("tier", "quick"))
    r = Rng(*case["ops_seed"]) if "ops_seed" in case else Rng(PROP, "directed", case.get("label", ""))

    import pydsdl

    types_by_root = {}
    deps_by_root = {}
    for root in roots:
        others = [x for x in roots if x != root]
        deps_by_root[root] = others
        types_by_root[root] = pydsdl.read_namespace(os.path.join(world.in_dir, root), [os.path.join(world.in_dir, x) for x in others], allow_unregulated_fixed_port_id=True)

    # ---- the history (explicit, or derived from the seed)
    if "ops" in case:
        ops = [dict(o) for o in case["ops"]]
    else:
        ops = []
        if "script" in case:
            templates = [dict(t) for t in case["script"]]
        else:
            base_lang = r.choice(LANGS)
            base_tpl = r.weighted([(None, 3), ("blanky", 3), ("by_kind", 1), ("any_only", 1)])
            base_pp = {"trim": r.chance(1, 3), "max_empty": r.choice([None, 0, 1, 2])}
            templates = []
            for i in range(r.between(3, 8 if tier == "thorough" else 6)):
                ro = r.sub("op", i)
                t = {"lang": base_lang, "templates": base_tpl, "pp": dict(base_pp)}  # type: typing.Dict[str, typing.Any]
                if ro.chance(1, 5):
                    t["lang"] = ro.choice(LANGS + ["html"])
                if ro.chance(1, 5):
                    t["templates"] = ro.choice([None, "blanky", "by_kind"])
                if ro.chance(1, 6):
                    t["pp"] = {"trim": ro.chance(1, 2), "max_empty": ro.choice([None, 0, 1])}
                if ro.chance(1, 2):
                    t["subset_pick"] = ro.below(1000)
                if ro.chance(1, 2):
                    t["order_seed"] = ro.below(1 << 20) + 1
                if ro.chance(1, 5):
                    t["entry"] = "cli"
                if ro.chance(1, 5):
                    t["abort_at"] = ro.between(1, 12)
                    if ro.chance(2, 3):
                        t["abort_style"] = ro.choice(["write", "stream"])
                        t["abort_file"] = ro.below(3)
                        t["abort_write"] = ro.weighted([(ro.below(12), 3), (ro.below(60), 1)])
                if ro.chance(1, 8):
                    t["support_ns"] = ro.choice(["acme.support", "x"])
                    t["entry"] = "api"
                if ro.chance(1, 5):
                    t["trim_blocks"] = ro.chance(1, 2)
                    t["lstrip_blocks"] = ro.chance(1, 2)
                if ro.chance(1, 4):
                    t["share_lctx"] = True  # this generator is built on the LanguageContext of an earlier invocation
                    t["entry"] = "api"
                if ro.chance(1, 8):
                    t["reserved"] = ro.sample(["value", "data", "count", "flags", "x", "y", "a", "b", "id", "velocity"], 4)
                    t["entry"] = "api"
                if ro.chance(1, 6):
                    t["variant"] = True  # this invocation sees an edited copy of the inputs (no subset)
                    t.pop("subset_pick", None)
                if ro.chance(1, 8):
                    t["omit_ser"] = True
                if ro.chance(1, 8):
                    t["audit"] = True  # embed_auditing_info for this call only (a per-call parameter)
                if ro.chance(1, 8):
                    t["pp"] = dict(t.get("pp") or {}, prog=True)  # an external program edits every generated file
                if ro.chance(1, 3) and i > 0:
                    # generate_all() again on the generator object of the previous invocation, possibly with another
                    # omit_serialization_support argument (a per-call parameter of the same object)
                    prev_t = templates[-1]
                    t = {k: v for k, v in prev_t.items() if k not in ("abort_at", "abort_style", "abort_file", "abort_write", "reuse")}  # same object: same inputs, same construction
                    t["reuse"] = True
                    t["entry"] = "api"
                    if ro.chance(1, 2):
                        t["omit_ser"] = not prev_t.get("omit_ser", False)
                    if ro.chance(1, 3):
                        t["audit"] = not prev_t.get("audit", False)
                templates.append(t)
        root0 = max(roots, key=lambda x: (len(types_by_root[x]), x))
        for i, t in enumerate(templates):
            op = dict(t)
            if "root_pick" in op:
                op["root"] = sorted(roots)[op.pop("root_pick") % len(roots)]
            op.setdefault("root", root0 if r.sub("root", i).chance(3, 4) else r.sub("root", i).choice(roots))
            op["lookups"] = deps_by_root[op["root"]]
            if op.get("templates") and not usertpl.usable_for(op["lang"], op["templates"]):
                op["templates"] = None
            if op.get("templates") is None and op["lang"] in ("c", "cpp"):
                op.pop("ns_types", None)
            if op.get("reuse") and ops:
                for k in ("root", "lookups", "subset"):
                    if k in ops[-1]:
                        op[k] = ops[-1][k]
                    else:
                        op.pop(k, None)
                op.pop("subset_pick", None)
            if "subset_pick" in op:
                all_keys = sorted(type_key(x) for x in types_by_root[op["root"]])
                pick = op.pop("subset_pick")
                rs = Rng("subset", pick, op["root"])
                seeds = rs.sample(all_keys, max(1, min(len(all_keys), 1 + rs.below(3))))
                op["subset"] = closure_of(types_by_root[op["root"]], seeds)
            if op.get("support_ns") or op.get("reserved") or op.get("share_lctx") or op.get("variant") and op.get("subset") is not None:
                op["entry"] = "api"
            if op.get("variant"):
                op.pop("subset", None)
            op.setdefault("entry", "api")
            if op["entry"] == "api" and not any(op.get(k) for k in ("templates", "pp", "subset", "order_seed", "reuse", "support_ns", "reserved", "share_lctx", "trim_blocks", "lstrip_blocks", "ns_types", "abort_at")) and r.sub("gt", i).chance(1, 2):
                op["entry"] = "gt"  # nothing but defaults is asked for: the one-call helper does the same job
            ops.append(op)

    # ---- an edited copy of the inputs (a dependency moved to another type of identical layout), used by "variant" ops;
    # it is swapped in at the SAME absolute input path, so nothing but the edit differs
    variant_files = dsdlgen.same_layout_variant(files)
    variant_dir = os.path.join(sandbox, "in.variant")
    if variant_files is not None:
        dsdlgen.materialize_files(variant_files, roots, variant_dir)

    def swap_inputs(to_variant: bool) -> None:
        if variant_files is None:
            return
        if to_variant:
            os.rename(world.in_dir, world.in_dir + ".orig")
            os.rename(variant_dir, world.in_dir)
        else:
            os.rename(world.in_dir, variant_dir)
            os.rename(world.in_dir + ".orig", world.in_dir)

    # ---- references: the whole namespace in identity order, each in a pristine fork()ed child
    ref_cache = {}  # type: typing.Dict[str, typing.Optional[typing.Dict[str, bytes]]]
    ref_ns_cache = {}  # type: typing.Dict[str, typing.Dict[str, bytes]]
    evaluations = 0

    def ref_key(op: dict) -> str:
        return repr((op["root"], op["lang"], op.get("templates"), sorted((op.get("pp") or {}).items()), bool(op.get("ns_types")), bool(op.get("omit_ser")), op.get("support_ns"), bool(op.get("variant")), bool(op.get("trim_blocks")), bool(op.get("lstrip_blocks")), repr(op.get("reserved")), bool(op.get("audit"))))

    def reference(op: dict) -> typing.Optional[typing.Dict[str, bytes]]:
        nonlocal evaluations
        k = ref_key(op)
        if k in ref_cache:
            return ref_cache[k]
        out_dir = os.path.join(sandbox, "ref-out")
        nnvg._force_rmtree(out_dir)  # pylint: disable=protected-access
        clean = {kk: vv for kk, vv in op.items() if kk in ("root", "lookups", "lang", "templates", "pp", "ns_types", "omit_ser", "support_ns", "trim_blocks", "lstrip_blocks", "reserved", "audit")}
        use_variant = bool(op.get("variant")) and variant_files is not None

        def child() -> typing.Any:
            if use_variant:
                swap_inputs(True)
            s = Seams({"sandbox": sandbox, "clock": dict(nnvg.FROZEN_CLOCK), "sort_enum": True, "extprog": "ok"})
            s.install()
            install_order_seam()
            try:
                keys = api_generate(Ctx(world, roots, files), clean, out_dir)
                return {"ok": True, "paths": keys}
            except Exception as ex:  # pylint: disable=broad-except
                return {"ok": False, "err": "%s: %s" % (type(ex).__name__, ex)}
            finally:
                if use_variant:
                    s.enabled = False
                    swap_inputs(False)  # the disk is shared with the parent: put the original inputs back

        res = proc.run_in_fork(child, timeout_s=120)
        evaluations += 1
        if not res["ok"]:
            ref_cache[k] = None
            bump("ops", "reference-fails")
            return None
        tree = {}
        ns_tree = {}
        for tk, p in res["paths"].items():
            if tk.startswith("ns:"):
                if os.path.isfile(p):
                    with open(p, "rb") as f:
                        ns_tree[os.path.relpath(p, out_dir)] = f.read()
                continue
            with open(p, "rb") as f:
                tree[os.path.relpath(p, out_dir)] = f.read()
        ref_cache[k] = tree
        ref_ns_cache[k] = ns_tree
        return tree

    for op in ops:
        reference(op)

    # ---- the history, in *this* interpreter
    seams = Seams({"sandbox": sandbox, "clock": dict(nnvg.FROZEN_CLOCK), "sort_enum": True, "extprog": "ok", "stream_fault_seam": True})
    seams.install()
    install_order_seam()
    cx = Ctx(world, roots, files)
    cx.seams = seams  # type: ignore
    violations = []  # type: typing.List[dict]
    states = []  # type: typing.List[str]
    keys = []  # type: typing.List[str]
    trace = []  # type: typing.List[str]
    executed = []  # type: typing.List[dict]
    dirty = False
    for i, op in enumerate(ops):
        ref = reference(op)
        executed.append(op)
        if ref is None:
            continue
        out_dir = os.path.join(sandbox, "out", "%d" % i)
        if op.get("reuse"):
            gkey = repr(sorted((k, str(v)) for k, v in op.items() if k not in ("reuse", "abort_at", "abort_style", "abort_file", "abort_write", "order_seed", "omit_ser", "audit")))
            # (the object writes where its namespace tree was built for: the directory of the invocation that CREATED it,
            # however many calls were made on it since)
            if gkey in cx.generators and op.get("entry", "api") == "api":
                out_dir = cx.gen_out[gkey]
                bump("probes", "generator_object_reused")
                if cx.gen_calls.get(gkey, 0) >= 2:
                    bump("probes", "generator_object_used_a_third_time")
        seams.fault = None
        seams.fault_fired = None
        seams.mut_count = 0
        seams.wopen_count = 0
        seams.stream_fault = None
        seams.stream_calls = 0
        if op.get("abort_at") is not None:
            if op.get("abort_style") == "stream":
                # the template (a filter, an assert) raises after part of a line was already handed over
                seams.stream_fault = {"call": op.get("abort_file", op["abort_at"] % 4), "after_chars": op.get("abort_write", 0) * 11 + 5}
            elif op.get("abort_style") == "write":
                # the exception strikes in the middle of a file (after some lines went through the post-processors)
                seams.fault = {"kind": "write_oserror", "errno": "EIO", "file": op.get("abort_file", op["abort_at"] % 4), "write": op.get("abort_write", (op["abort_at"] * 7) % 23), "partial": 50}
            else:
                seams.fault = {"kind": "oserror", "errno": "EIO", "at": op["abort_at"] * 3}
        aborted = False
        swapped = bool(op.get("variant")) and variant_files is not None
        if swapped:
            seams.enabled = False
            swap_inputs(True)
            seams.enabled = True
            bump("probes", "invocation_over_edited_inputs")
        try:
            if op.get("entry") == "cli":
                cli_generate(cx, op, out_dir, os.path.join(sandbox, "in-subset-%d" % i))
                bump("ops", "cli")
            elif op.get("entry") == "gt":
                # nunavut.generate_types(): "the most direct way to generate code using Nunavut"
                import pathlib

                import nunavut

                nunavut.generate_types(
                    op["lang"],
                    pathlib.Path(os.path.join(world.in_dir, op["root"])),
                    pathlib.Path(out_dir),
                    omit_serialization_support=bool(op.get("omit_ser")),
                    lookup_directories=[os.path.join(world.in_dir, x) for x in op.get("lookups", [])],
                    allow_unregulated_fixed_port_id=True,
                    include_experimental_languages=True,
                    embed_auditing_info=bool(op.get("audit")),
                )
                bump("ops", "generate_types")
            else:
                api_generate(cx, op, out_dir)
                bump("ops", "api")
        except BaseException as ex:  # pylint: disable=broad-except
            aborted = True
            if seams.fault_fired:
                bump("faults_fired", "abort-by-injected-exception")
                dirty = True
            else:
                bump("ops", "invocation-raised:" + type(ex).__name__)
        finally:
            seams.fault = None
            seams.stream_fault = None
            if swapped:
                seams.enabled = False
                swap_inputs(False)
                seams.enabled = True
        evaluations += 1
        desc = "%s|%s|%s|%s|sub=%s|ord=%s|reuse=%s|abort=%s|sns=%s|var=%s|ws=%s%s|shared=%s|res=%s|aud=%s" % (op.get("entry"), op["lang"], op.get("templates"), sorted((op.get("pp") or {}).items()), "all" if op.get("subset") is None else len(op["subset"]), op.get("order_seed") is not None, bool(op.get("reuse")), (op.get("abort_style") or "call") if op.get("abort_at") is not None else None, op.get("support_ns"), bool(op.get("variant")), int(bool(op.get("trim_blocks"))), int(bool(op.get("lstrip_blocks"))), bool(op.get("share_lctx")), bool(op.get("reserved")), bool(op.get("audit")))
        trace.append(desc)
        if aborted:
            continue
        if dirty:
            bump("probes", "run_after_aborted_run_in_dirty_interpreter")
        tree = _read_types_tree(out_dir)
        compared = 0
        seen_here = set()  # type: typing.Set[str]
        for rel, want in sorted(ref.items()):
            if rel not in tree:
                if op.get("subset") is None and not op.get("templates"):
                    # the whole namespace was asked for: a type without a file means that what is generated depends on what this
                    # interpreter (or this generator object) did before
                    sig = "%s:type-file-missing-although-whole-namespace-generated:%s" % (PROP, op["lang"])
                    if sig not in seen_here:
                        seen_here.add(sig)
                        violations.append({"signature": sig, "detail": {"op_index": i, "op": op, "path": rel, "history": trace[:]}})
                continue  # not in this subset
            compared += 1
            if tree[rel] != want:
                cls = classify_diff(op["lang"], want, tree[rel])
                sig = "%s:type-file-differs:%s:%s:%s" % (PROP, op["lang"], "user-templates" if op.get("templates") else "builtin-templates", cls)
                if sig in seen_here:
                    continue
                seen_here.add(sig)
                violations.append({"signature": sig, "detail": {"op_index": i, "op": op, "path": rel, "history": trace[:], "first_difference": _first_diff(want, tree[rel])}})
        if op.get("subset") is None and op.get("order_seed") is None and i > 0:
            # The file of a namespace pseudo-type (py __init__, html index, --generate-namespace-types) legitimately depends on
            # the company and lists its members in model order; when the same whole namespace is generated in identity order,
            # the only thing that differs from the pristine reference is the history of this interpreter.
            for rel, want in sorted(ref_ns_cache.get(ref_key(op), {}).items()):
                if rel not in tree:
                    continue
                bump("probes", "namespace_file_compared_after_earlier_invocations")
                if tree[rel] != want:
                    sig = "%s:namespace-file-depends-on-earlier-invocations:%s:%s" % (PROP, op["lang"], "user-templates" if op.get("templates") else "builtin-templates")
                    if sig in seen_here:
                        continue
                    seen_here.add(sig)
                    violations.append({"signature": sig, "detail": {"op_index": i, "op": op, "path": rel, "history": trace[:], "first_difference": _first_diff(want, tree[rel])}})
        if compared:
            hist = hashlib.sha256("\n".join(trace[:-1]).encode()).hexdigest()[:10]
            states.append("%s|%s" % (hist, desc))
            if i > 0 or op.get("subset") is not None or op.get("order_seed") is not None:
                keys.append(hashlib.sha256("\n".join(trace).encode()).hexdigest()[:16])
        if op.get("subset") is not None and len(op["subset"]) < len(types_by_root[op["root"]]):
            bump("probes", "proper_subset_generated")
        if op.get("order_seed") is not None:
            bump("probes", "permuted_order")
    seams.enabled = False
    exec_case = {
        "label": case.get("label"),
        "hash_seed": case.get("hash_seed", 0),
        "dsdl": {"roots": list(roots), "files": dict(files)},
        "ops": executed,
        "tier": tier,
    }
    counters["dsdl"] = {k: v for k, v in stats.items() if isinstance(v, int)}
    return {
        "violations": violations,
        "executed": exec_case,
        "evaluations": evaluations,
        "nontrivial_keys": keys,
        "states": states,
        "counters": counters,
        "sim_time_s": 0.0,
        "sample": {"history": trace},
        "digest": hashlib.sha256("\n".join(trace + states).encode()).hexdigest()[:16],
    }


def _first_diff(a: bytes, b: bytes) -> dict:
    la, lb = a.split(b"\n"), b.split(b"\n")
    for i, (x, y) in enumerate(zip(la, lb)):
        if x != y:
            return {"line": i + 1, "reference": x[:160].decode("utf-8", "replace"), "history_run": y[:160].decode("utf-8", "replace")}
    return {"line": min(len(la), len(lb)) + 1, "reference_lines": len(la), "history_run_lines": len(lb)}


def reductions(case: dict) -> typing.Iterator[dict]:
    ops = case["ops"]
    for i in range(len(ops)):
        if len(ops) > 1:
            c = dict(case)
            c["ops"] = ops[:i] + ops[i + 1 :]
            yield c
    for i, op in enumerate(ops):
        for k, neutral in (("abort_at", None), ("variant", None), ("support_ns", None), ("share_lctx", None), ("trim_blocks", None), ("lstrip_blocks", None), ("reserved", None), ("audit", None), ("order_seed", None), ("reuse", None), ("subset", None), ("entry", "api"), ("omit_ser", None), ("pp", {}), ("templates", None)):
            if op.get(k) not in (neutral, None):
                c = dict(case)
                c["ops"] = [dict(o) for o in ops]
                if neutral is None:
                    c["ops"][i].pop(k, None)
                else:
                    c["ops"][i][k] = neutral
                yield c
    yield from nnvg.reduce_dsdl(case)
