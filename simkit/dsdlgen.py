"""
Seeded generator of small, valid DSDL namespace sets (the *sampled* input dimension, DESIGN 1.9).

The generator emits text only; validity is decided by pydsdl (``validate``), invalid sets are counted and dropped.
Types refer only to earlier types, so the dependency graph is acyclic by construction.
"""
import os
import typing

from .rng import Rng

# (besides keywords: names that match a language's reserved *patterns* for one kind of identifier only - C functions
# ^(is|to|str|mem|wcs)[a-z], typedefs ^(atomic_|memory_)[a-z] / ^u?int.*_t, macros ^E[A-Z0-9]+ / ^SIG_?[A-Z] - so that
# stropping "as a path", "as a type" and "as anything" give different answers)
ROOT_NAMES = ["alpha", "bravo", "vendor", "zz9", "regs", "str", "register", "my_ns", "Cap", "tools", "memory_map"]
NS_NAMES = ["sub", "deep", "x", "y2", "node", "nav", "navigation", "iffy", "class", "def", "if", "while", "long", "io", "detail", "Mixed", "stream", "torque", "isolated", "atomic_ops", "mtx_util", "uint_fast_t", "EVENTS", "SIGNALS"]
TYPE_NAMES = [
    "Foo", "Bar", "Baz", "Quux", "Status", "Node", "Heartbeat", "Point", "List", "Record", "Integer", "Any", "Union",
    "Str", "NULL", "None", "Object", "Class", "A", "B2", "lower", "With_Underscore", "XMLHttp", "Real", "Double",
    "ERROR", "SIGTERM", "Toggle", "island", "memory_pool", "int_least_t",
]  # fmt: skip
FIELD_NAMES = [
    "a", "b", "c", "value", "data", "count", "flags", "x", "y", "z", "id", "register", "class", "def", "return",
    "lambda", "delete", "new", "this", "namespace", "if", "while", "for", "double", "char", "long", "short", "signed",
    "static", "volatile", "inline", "typedef", "str", "list", "print", "import", "from", "global", "pass", "yield",
    "is", "in", "try", "NULL", "None", "a_b", "a__b", "_x", "_Upper", "camelCase", "UPPER", "v1", "len", "size",
    "tag", "type_", "union_", "operator", "friend", "explicit", "mutable", "goto", "default", "switch", "case",
    "do", "else", "break", "continue", "extern", "sizeof", "restrict", "bool_", "true_", "nullptr", "alignas",
    "constexpr", "decltype", "noexcept", "thread_local", "assert", "async", "await", "nonlocal", "raise", "with",
    "del", "elif", "except", "finally", "exec", "object", "dict", "set", "tuple", "int_", "float_", "max", "min",
    "errno", "EOF", "stdin", "serialize", "deserialize", "out_obj", "buffer", "inout_buffer_size_bytes", "obj",
    "offset_bits", "capacity_bytes", "err", "rc", "index", "_tag", "in_buffer", "out_buffer", "result", "e",
]  # fmt: skip
CONST_NAMES = ["MAX", "MIN", "LIMIT", "FLAG_A", "FLAG_B", "PI", "E", "NAME", "lower_const", "Mixed_Const", "NULL", "EOF"]
DOC_FRAGMENTS = [
    "A plain comment.",
    "Contains <b>markup</b> & an ampersand.",
    'Quotes "double" and \'single\'.',
    "</pre><script>alert(1)</script>",
    "Trailing spaces   ",
    "Unicode: é中文   sep",
    "Jinja-looking {{ text }} and {% block %}",
    "C comment terminator */ inside",
    "Backslash \\ and percent %s %d",
    "",
    "    indented",
    "tab\there",
    "See https://example.org/well-known/spec-sheet.html for the wire-level details.",
    "Link: http://host/a-b-c and a trailing-hyphen-",
]
# words for over-long comment lines (block-comment filters wrap them; hyphenated words may be broken at the margin)
LONG_WORDS = [
    "state-of-the-art", "re-entrant", "byte-aligned", "well-known", "zero-extended", "little-endian", "the", "a", "of", "value", "field",
    "implementation-defined", "non-zero", "x", "is", "measurement", "two-phase", "co-ordinate", "https://example.org/a-b", "saturated,", "unit-less",
]  # fmt: skip


class GenType:
    def __init__(self) -> None:
        self.root = ""
        self.ns = []  # type: typing.List[str]
        self.short = ""
        self.major = 1
        self.minor = 0
        self.kind = "struct"
        self.text = ""
        self.deps = []  # type: typing.List[GenType]
        self.port_id = None  # type: typing.Optional[int]
        self.is_service = False
        self.deprecated = False
        self.max_bits_hint = 0

    @property
    def full_name(self) -> str:
        return ".".join([self.root] + self.ns + [self.short])

    @property
    def key(self) -> str:
        return "%s.%d.%d" % (self.full_name, self.major, self.minor)

    @property
    def ref(self) -> str:
        return "%s.%d.%d" % (self.full_name, self.major, self.minor)

    @property
    def relpath(self) -> str:
        fn = "%s.%d.%d.dsdl" % (self.short, self.major, self.minor)
        if self.port_id is not None:
            fn = "%d.%s" % (self.port_id, fn)
        return "/".join([self.root] + self.ns + [fn])


class DsdlSet:
    """A set of root namespaces. ``files`` maps a path relative to the inputs directory to text."""

    def __init__(self) -> None:
        self.types = []  # type: typing.List[GenType]
        self.roots = []  # type: typing.List[str]
        self.extra_files = {}  # type: typing.Dict[str, str]

    @property
    def files(self) -> typing.Dict[str, str]:
        out = {t.relpath: t.text for t in self.types}
        out.update(self.extra_files)
        return out

    def root_deps(self, root: str) -> typing.List[str]:
        """Other roots that types of ``root`` refer to (transitively), in the order of ``self.roots``."""
        seen = set()  # type: typing.Set[str]
        stack = [t for t in self.types if t.root == root]
        visited = set()
        while stack:
            t = stack.pop()
            if t.key in visited:
                continue
            visited.add(t.key)
            for d in t.deps:
                if d.root != root:
                    seen.add(d.root)
                stack.append(d)
        return [r for r in self.roots if r in seen]

    def closure(self, keys: typing.Iterable[str]) -> typing.List[GenType]:
        by_key = {t.key: t for t in self.types}
        out = {}  # type: typing.Dict[str, GenType]
        stack = [by_key[k] for k in keys]
        while stack:
            t = stack.pop()
            if t.key in out:
                continue
            out[t.key] = t
            stack.extend(t.deps)
        return [t for t in self.types if t.key in out]

    def to_json(self) -> dict:
        return {"roots": self.roots, "files": self.files}

    def materialize(self, base_dir: str, only: typing.Optional[typing.Iterable[str]] = None) -> None:
        only_set = set(only) if only is not None else None
        for root in self.roots:
            os.makedirs(os.path.join(base_dir, root), exist_ok=True)
        for rel, text in self.files.items():
            if only_set is not None and rel not in only_set:
                continue
            p = os.path.join(base_dir, rel)
            os.makedirs(os.path.dirname(p), exist_ok=True)
            with open(p, "w", encoding="utf-8", newline="") as f:
                f.write(text)


def materialize_files(files: typing.Dict[str, str], roots: typing.Iterable[str], base_dir: str) -> None:
    for root in roots:
        os.makedirs(os.path.join(base_dir, root), exist_ok=True)
    for rel, text in files.items():
        p = os.path.join(base_dir, rel)
        os.makedirs(os.path.dirname(p), exist_ok=True)
        with open(p, "w", encoding="utf-8", newline="") as f:
            f.write(text)


class Profile:
    """Knobs of the generator; ``small`` keeps serialized sizes tiny (C04), ``rich`` exercises naming and docs."""

    def __init__(self, **kw: typing.Any) -> None:
        self.max_roots = 2
        self.min_types = 2
        self.max_types = 7
        self.max_ns_depth = 3
        self.max_fields = 6
        self.max_array = 6
        self.services = True
        self.docs = True
        self.weird_names = True
        self.port_ids = False
        self.multi_version = True
        self.crlf = False
        self.confusable_families = True
        self.__dict__.update(kw)


def _primitive(r: Rng) -> typing.Tuple[str, int]:
    k = r.weighted([("uint", 5), ("int", 3), ("float", 3), ("bool", 2), ("byte", 1)])
    if k == "uint":
        bits = r.weighted([(8, 4), (16, 3), (32, 3), (64, 2), (r.between(1, 64), 6)])
        mode = r.weighted([("", 3), ("saturated ", 1), ("truncated ", 2)])
        return "%suint%d" % (mode, bits), bits
    if k == "int":
        bits = r.weighted([(8, 3), (16, 3), (32, 3), (64, 2), (r.between(2, 64), 6)])
        mode = r.weighted([("", 3), ("saturated ", 1)])
        return "%sint%d" % (mode, bits), bits
    if k == "float":
        bits = r.choice([16, 32, 64])
        mode = r.weighted([("", 3), ("saturated ", 1), ("truncated ", 2)])
        return "%sfloat%d" % (mode, bits), bits
    if k == "byte":
        return "uint8", 8
    return "bool", 1


def _const_line(r: Rng, name: str) -> str:
    k = r.below(6)
    if k == 0:
        return "uint8 %s = %d" % (name, r.below(256))
    if k == 1:
        return "int64 %s = %d" % (name, r.choice([-9223372036854775808, 9223372036854775807, -1, 0, 42]))
    if k == 2:
        return "float32 %s = %s" % (name, r.choice(["3.14", "-1e10", "0.0", "1/3", "2.5e-3", "16777217.0"]))
    if k == 3:
        return "bool %s = %s" % (name, r.choice(["true", "false"]))
    if k == 4:
        return "uint8 %s = '%s'" % (name, r.choice(["a", "Z", "0", "\\n", "\\'", "\\\\"]))
    return "uint64 %s = %s" % (name, r.choice(["0xFFFFFFFFFFFFFFFF", "0b1010", "0o17", "1_000_000", "2 ** 40"]))


def _doc_lines(r: Rng, p: Profile) -> typing.List[str]:
    if not p.docs or r.chance(1, 2):
        return []
    out = ["# " + r.choice(DOC_FRAGMENTS) if r.chance(5, 6) else "#" for _ in range(r.between(1, 3))]
    if r.chance(1, 4):
        # one over-long line: 90..220 characters of words, many of them hyphenated
        want = r.between(90, 220)
        words = []  # type: typing.List[str]
        while sum(len(w) + 1 for w in words) < want:
            words.append(r.choice(LONG_WORDS))
        out.insert(r.below(len(out) + 1), "# " + " ".join(words))
    return out


def _gen_section(
    r: Rng, p: Profile, earlier: typing.List[GenType], is_union: bool, allow_directives: bool = True,
    deprecated: bool = False,
) -> typing.Tuple[typing.List[str], typing.List[GenType], int]:
    """One message body (or one half of a service). Returns (lines, deps, rough upper bound of bits)."""
    lines = []  # type: typing.List[str]
    deps = []  # type: typing.List[GenType]
    used_names = set()  # type: typing.Set[str]
    bits = 0
    names = FIELD_NAMES if p.weird_names else FIELD_NAMES[:11]

    scope = list(getattr(p, "scope_names", None) or [])

    def fresh_name() -> str:
        for _ in range(50):
            # now and then a field is called like a (root) namespace of this very set: one token stropped as a path component,
            # as a namespace and as a member within one run
            n = r.choice(scope) if scope and p.weird_names and r.chance(1, 7) else r.choice(names)
            if n.lower() not in used_names:
                used_names.add(n.lower())
                return n
        n = "f%d" % len(used_names)
        used_names.add(n)
        return n

    if is_union:
        lines.append("@union")
    nfields = r.between(2 if is_union else 0, p.max_fields)
    nconst = r.weighted([(0, 4), (1, 2), (2, 1)])
    cands = [t for t in earlier if not t.is_service and (deprecated or not t.deprecated)]
    for _ in range(nfields):
        lines.extend(_doc_lines(r, p))
        kind = r.weighted(
            [("prim", 6), ("fixarr", 2), ("vararr", 4), ("comp", 3 if cands else 0), ("comparr", 2 if cands else 0)]
            + ([] if is_union else [("void", 2)])
        )
        if kind == "void":
            n = r.between(1, 64)
            lines.append("void%d" % n)
            bits += n
            continue
        name = fresh_name()
        if kind == "prim":
            tn, b = _primitive(r)
            lines.append("%s %s" % (tn, name))
            bits += b
        elif kind in ("fixarr", "vararr"):
            tn, b = _primitive(r)
            cap = r.between(1, p.max_array)
            if b < 8 and r.chance(1, 3):
                cap = r.choice([9, 17, 40, 70])  # bit-packed arrays spanning several bytes
            elif kind == "vararr" and r.chance(1, 10):
                cap = r.choice([127, 128, 200, 254, 255, 256])  # capacities next to what a length prefix can announce
            if kind == "fixarr":
                lines.append("%s[%d] %s" % (tn, cap, name))
            elif r.chance(1, 3):
                cap += 1
                lines.append("%s[<%d] %s" % (tn, cap, name))
            else:
                lines.append("%s[<=%d] %s" % (tn, cap, name))
            bits += b * cap + 64
        else:
            d = r.choice(cands)
            deps.append(d)
            if kind == "comp":
                lines.append("%s %s" % (d.ref, name))
                bits += d.max_bits_hint + 40
            else:
                cap = r.between(1, max(1, p.max_array // 2))
                form = r.choice(["[%d]", "[<=%d]"])
                lines.append(("%s" + form + " %s") % (d.ref, cap, name))
                bits += (d.max_bits_hint + 40) * cap + 64
        if r.chance(1, 8):
            lines[-1] += "  # " + r.choice(DOC_FRAGMENTS)
    for _ in range(nconst):
        cn = r.choice(CONST_NAMES if p.weird_names else CONST_NAMES[:8])  # (NULL and EOF are macros in C and C++)
        if cn.lower() in used_names:
            continue
        used_names.add(cn.lower())
        lines.extend(_doc_lines(r, p))
        lines.append(_const_line(r, cn))
    bits += 64  # union tag / slack
    bits = (bits + 7) // 8 * 8
    if allow_directives:
        if r.chance(1, 2):
            lines.append("@sealed")
        else:
            lines.append("@extent %d * 8" % (bits // 8 + r.choice([0, 0, 1, 7, 64])))
            bits = max(bits, bits + 64 * 8)
    if r.chance(1, 6):
        lines.append("@assert 2 * 2 == 4")  # (_offset_ makes pydsdl expand the bit length set numerically: seconds per type)
    if p.docs and r.chance(1, 10):
        lines.append("@print 2 + 2")  # valid, rare: the front end hands the value to a print handler (stdout is a data channel of the listing modes)
    return lines, deps, bits


def generate(seed_labels: typing.Tuple, profile: typing.Optional[Profile] = None) -> DsdlSet:
    p = profile or Profile()
    r = Rng(*seed_labels)
    ds = DsdlSet()
    nroots = r.between(1, p.max_roots)
    roots = r.sample(ROOT_NAMES if p.weird_names else ROOT_NAMES[:5], nroots)
    r.shuffle(roots)
    # case-insensitively distinct
    seen_l = set()  # type: typing.Set[str]
    ds.roots = [x for x in roots if not (x.lower() in seen_l or seen_l.add(x.lower()))]  # type: ignore
    p.scope_names = list(ds.roots)
    used = set()  # type: typing.Set[str]
    for ri, root in enumerate(ds.roots):
        ntypes = r.between(p.min_types, p.max_types)
        ns_pool = [[]]  # type: typing.List[typing.List[str]]
        for _ in range(r.between(0, 3)):
            base = r.choice(ns_pool)
            if len(base) >= p.max_ns_depth:
                continue
            comp = r.choice(NS_NAMES if p.weird_names else NS_NAMES[:5])
            # an empty intermediate namespace now and then
            if r.chance(1, 4) and len(base) + 1 < p.max_ns_depth:
                ns_pool.append(base + [comp, r.choice(NS_NAMES[:5])])
            else:
                ns_pool.append(base + [comp])
            if comp not in p.scope_names:
                p.scope_names.append(comp)
        for ti in range(ntypes):
            t = GenType()
            t.root = root
            t.ns = list(r.choice(ns_pool))
            rr = r.sub("t", ri, ti)
            for _ in range(30):
                t.short = rr.choice(TYPE_NAMES if p.weird_names else TYPE_NAMES[:10])
                t.major = rr.weighted([(1, 5), (0, 2), (2, 1), (255, 1)])
                t.minor = rr.weighted([(0, 6), (1, 2), (255, 1)])
                if t.major == 0 and t.minor == 0:
                    t.minor = 1
                lk = (t.full_name.lower(), t.major)
                # a type name must not collide (case-insensitively) with a namespace or another type version
                ns_l = {".".join([root] + n[: i + 1]).lower() for n in ns_pool for i in range(len(n))}
                if str(lk) in used or t.full_name.lower() in ns_l:
                    continue
                used.add(str(lk))
                break
            else:
                continue
            if p.multi_version and rr.chance(1, 6):
                # another major version of an existing type in this root (layout may differ freely)
                prev = [x for x in ds.types if x.root == root]
                if prev:
                    o = rr.choice(prev)
                    cand = (o.full_name.lower(), o.major + 1)
                    if str(cand) not in used and o.major < 200:
                        used.discard(str((t.full_name.lower(), t.major)))
                        t.ns, t.short, t.major, t.minor = list(o.ns), o.short, o.major + 1, 0
                        used.add(str(cand))
            t.kind = rr.weighted([("struct", 6), ("union", 3), ("service", 2 if p.services else 0)])
            earlier = list(ds.types)
            head = []  # type: typing.List[str]
            if rr.chance(1, 8):
                head.append("@deprecated")
                t.deprecated = True
            head = _doc_lines(rr, p) + head if rr.chance(1, 2) else head + _doc_lines(rr, p)
            # @deprecated must precede attribute definitions but may follow comments; keep it first among directives
            if t.kind == "service":
                t.is_service = True
                a, d1, b1 = _gen_section(rr.sub("req"), p, earlier, rr.chance(1, 4), deprecated=t.deprecated)
                b, d2, b2 = _gen_section(rr.sub("rsp"), p, earlier, rr.chance(1, 4), deprecated=t.deprecated)
                body = a + ["---"] + b
                t.deps = d1 + d2
                t.max_bits_hint = max(b1, b2)
            else:
                body, t.deps, t.max_bits_hint = _gen_section(
                    rr.sub("msg"), p, earlier, t.kind == "union", deprecated=t.deprecated
                )
            if p.port_ids and rr.chance(1, 6):
                t.port_id = rr.between(100, 500) if t.is_service else rr.between(1000, 6000)
            nl = "\r\n" if (p.crlf and rr.chance(1, 5)) else "\n"
            t.text = nl.join(head + body) + (nl if rr.chance(5, 6) else "")
            ds.types.append(t)
            if p.multi_version and t.minor < 200 and rr.chance(1, 8):
                # a newer minor version with the identical layout (an added comment only): bit-compatible by construction
                m = GenType()
                m.__dict__.update(t.__dict__)
                m.ns, m.deps = list(t.ns), list(t.deps)
                m.minor = t.minor + 1
                m.text = "# minor revision" + nl + t.text
                if "@deprecated" in t.text:
                    m.text = t.text
                ds.types.append(m)
        # now and then: namespaces described by a type called "_" (the documented convention of the HTML target: its doc
        # comment is the description of the namespace)
        rd = r.sub("nsdoc", ri)
        if p.docs and p.weird_names and rd.chance(1, 3):
            for base_ns in rd.sample(ns_pool, min(len(ns_pool), rd.between(1, 2))):
                g = GenType()
                g.root, g.ns, g.short, g.major, g.minor = root, list(base_ns), "_", 0, 1
                if str((g.full_name.lower(), 0)) in used:
                    continue
                used.add(str((g.full_name.lower(), 0)))
                g.text = "# " + rd.choice(DOC_FRAGMENTS) + "\n# (describes this namespace)\n@sealed\n"
                g.max_bits_hint = 0
                ds.types.append(g)
        # now and then: a family of names that tie or reorder under "clever" comparisons (natural sort, zero padding,
        # numeric suffixes) plus one type that refers to all of them - ordering by such keys must stay total
        rf = r.sub("family", ri)
        if p.confusable_families and rf.chance(1, 4):
            fam = rf.choice([["Cell1", "Cell01", "Cell001"], ["Item2", "Item10", "Item9"], ["V1x2", "V1x02", "V01x2"], ["Aa", "AA1", "Aa01"]])
            members = []
            base_ns = list(rf.choice(ns_pool))
            for nm in fam:
                g = GenType()
                g.root, g.ns, g.short, g.major, g.minor = root, list(base_ns), nm, 1, 0
                if str((g.full_name.lower(), 1)) in used:
                    continue
                used.add(str((g.full_name.lower(), 1)))
                g.text = "uint8 v\n@sealed\n"
                g.max_bits_hint = 8
                ds.types.append(g)
                members.append(g)
            if len(members) >= 2:
                g = GenType()
                g.root, g.ns, g.short, g.major, g.minor = root, list(base_ns), "Pack", 1, 0
                if str((g.full_name.lower(), 1)) not in used:
                    used.add(str((g.full_name.lower(), 1)))
                    order = rf.shuffle(list(members))
                    g.text = "\n".join("%s f%d" % (m.ref, i) for i, m in enumerate(order)) + "\n@sealed\n"
                    g.deps = list(members)
                    g.max_bits_hint = 8 * len(members)
                    ds.types.append(g)
    return ds


def validate(ds_files: typing.Dict[str, str], roots: typing.List[str], workdir: str) -> typing.Optional[str]:
    """Materialise under ``workdir`` and ask pydsdl; returns None if valid, else the error text."""
    import shutil

    import pydsdl

    shutil.rmtree(workdir, ignore_errors=True)
    materialize_files(ds_files, roots, workdir)
    try:
        for root in roots:
            others = [os.path.join(workdir, o) for o in roots if o != root]
            pydsdl.read_namespace(os.path.join(workdir, root), others, allow_unregulated_fixed_port_id=True)
    except Exception as ex:  # pylint: disable=broad-except
        return "%s: %s" % (type(ex).__name__, ex)
    finally:
        shutil.rmtree(workdir, ignore_errors=True)
    return None


def generate_valid(
    seed_labels: typing.Tuple, workdir: str, profile: typing.Optional[Profile] = None, stats: typing.Optional[dict] = None
) -> DsdlSet:
    """First valid set among sub-seeds 0..; counts rejects in stats['dsdl_rejected']."""
    for attempt in range(200):
        ds = generate(tuple(seed_labels) + ("attempt", attempt), profile)
        if not ds.types:
            continue
        err = validate(ds.files, ds.roots, workdir)
        if err is None:
            if stats is not None:
                stats["dsdl_accepted"] = stats.get("dsdl_accepted", 0) + 1
            return ds
        if stats is not None:
            stats["dsdl_rejected"] = stats.get("dsdl_rejected", 0) + 1
            stats.setdefault("dsdl_reject_reasons", {})
            k = err.split(":")[0]
            stats["dsdl_reject_reasons"][k] = stats["dsdl_reject_reasons"].get(k, 0) + 1
    raise RuntimeError("dsdlgen: no valid set in 200 attempts for %r" % (seed_labels,))


_REF = None


def same_layout_variant(files: typing.Dict[str, str]) -> typing.Optional[typing.Dict[str, str]]:
    """
    An edited copy of the inputs in which one type refers to ANOTHER composite of identical definition text instead of
    the one it referred to: names, versions and every bit length set stay what they were, but the set of types that
    file depends on changes (what a user does when a dependency moves). None if the set offers no such pair.
    """
    import re

    ref_of = {}
    for rel in files:
        parts = rel.split("/")
        fn = parts[-1].split(".")
        if fn[0].isdigit():
            fn = fn[1:]
        ref_of[".".join(parts[:-1] + [fn[0]]) + ".%s.%s" % (fn[1], fn[2])] = rel
    pat = re.compile(r"(?<![\w.])(" + "|".join(re.escape(k) for k in sorted(ref_of, key=len, reverse=True)) + r")(?![\w.])") if ref_of else None
    if pat is None:
        return None
    # (the description of a namespace - the doc comment of its "_" type - is edited as well: same names, another text)
    edited = {rel: "# edited description of the namespace\n" + text for rel, text in files.items() if rel.split("/")[-1].startswith("_.")}
    for rel in sorted(files):
        refs = []
        for m in pat.finditer(files[rel]):
            if m.group(1) not in refs and ref_of[m.group(1)] != rel:
                refs.append(m.group(1))
        for i in range(len(refs)):
            for j in range(len(refs)):
                a, b = refs[i], refs[j]
                if i != j and files[ref_of[a]].strip() == files[ref_of[b]].strip():
                    out = dict(files)
                    out[rel] = pat.sub(lambda m, a=a, b=b: a if m.group(1) == b else m.group(1), files[rel])
                    if out[rel] != files[rel]:
                        out.update(edited)
                        return out
    if edited:
        out = dict(files)
        out.update(edited)
        return out
    return None
