#!/venv/bin/python
"""
Confirm one seeded change produced by an independent sub-agent and record it under /verif/seeded/<name>/.

  selftest/seeded.py confirm <agent-out-dir> <property> <name> <worktree>   verify in the scratch worktree: patch applies, pinned suite
                                                               keeps every stable_pass test, demo fails with / passes without
  selftest/seeded.py check <name> [--tier quick]              apply /verif/seeded/<name>/patch.diff to /repo, run the property's
                                                               check, undo it straight afterwards; records the outcome in meta.json
"""
import glob
import json
import os
import shutil
import subprocess
import sys
import time

HERE = os.path.dirname(os.path.dirname(os.path.abspath(__file__)))
SEEDED = os.path.join(HERE, "seeded")


def sh(cmd, **kw):
    return subprocess.run(cmd, stdout=subprocess.PIPE, stderr=subprocess.STDOUT, check=False, **kw)


def demo_cmd(d):
    for name in ("demo.py", "demo.sh"):
        p = os.path.join(d, name)
        if os.path.exists(p):
            return (["/venv/bin/python", p] if name.endswith(".py") else ["bash", p]), name
    raise SystemExit("no demo in %s" % d)


def run_demo(d, src):
    cmd, _ = demo_cmd(d)
    env = dict(os.environ)
    env["NUNAVUT_SRC"] = src
    env["PYTHONPATH"] = src
    p = sh(cmd, env=env, cwd=d, timeout=900)
    return p.returncode, p.stdout.decode("utf-8", "replace")[-1500:]


def confirm(out_dir, prop, name, wt):
    patch = os.path.join(out_dir, "patch.diff")
    assert sh(["git", "-C", wt, "status", "--porcelain"]).stdout.strip() == b"", "worktree not clean"
    rc_clean, out_clean = run_demo(out_dir, os.path.join(wt, "src"))
    ap = sh(["git", "-C", wt, "apply", patch])
    assert ap.returncode == 0, ap.stdout
    try:
        rc_mut, out_mut = run_demo(out_dir, os.path.join(wt, "src"))
        base = sh(["/venv/bin/python", os.path.join(HERE, "selftest", "baseline.py"), wt], timeout=1800)
        base_out = base.stdout.decode("utf-8", "replace").strip().split("\n")[-3:]
    finally:
        sh(["git", "-C", wt, "checkout", "--", "."])
        sh(["git", "-C", wt, "clean", "-fdq"])
    ok = rc_clean == 0 and rc_mut != 0 and base.returncode == 0
    print("confirm %s: demo clean rc=%d, demo with change rc=%d, baseline rc=%d (%s) -> %s" % (name, rc_clean, rc_mut, base.returncode, base_out[-1] if base_out else "", "CONFIRMED" if ok else "REJECTED"))
    if not ok:
        print(out_mut[-600:])
        return 1
    d = os.path.join(SEEDED, name)
    os.makedirs(d, exist_ok=True)
    shutil.copy(patch, os.path.join(d, "patch.diff"))
    _, dn = demo_cmd(out_dir)
    shutil.copy(os.path.join(out_dir, dn), os.path.join(d, dn))
    notes = os.path.join(out_dir, "notes.md")
    if os.path.exists(notes):
        shutil.copy(notes, os.path.join(d, "notes.md"))
    meta = {
        "name": name,
        "property": prop,
        "source": "independent sub-agent given only the property text and a scratch worktree (nothing from /verif)",
        "needs_to_manifest": "see notes.md",
        "confirmed": {
            "patch_applies_to": sh(["git", "-C", wt, "rev-parse", "--short", "HEAD"]).stdout.decode().strip(),
            "pinned_suite_with_change": base_out[-1] if base_out else "",
            "demo_exit_without_change": rc_clean,
            "demo_exit_with_change": rc_mut,
            "commands": ["git -C <scratch worktree> apply patch.diff", "NUNAVUT_SRC=<worktree>/src %s" % dn, "selftest/baseline.py <worktree>"],
        },
    }
    with open(os.path.join(d, "meta.json"), "w", encoding="utf-8") as f:
        json.dump(meta, f, indent=1)
    return 0


def check(name, tier):
    d = os.path.join(SEEDED, name)
    meta = json.load(open(os.path.join(d, "meta.json")))
    if meta.get("out_of_statement"):
        # confirmed as a behaviour change, but not a violation of the statement as given: kept, not claimed, not run
        print("%-34s %s OUT-OF-STATEMENT (%s)" % (name, meta["property"], meta["out_of_statement"][:120]))
        return 0
    # (a change written against one property may be the subject of another property's statement: meta names the check)
    prop = meta.get("check_property") or meta["property"]
    # VERIF_SEEDED_REPO: a frozen scratch worktree of /repo's HEAD to patch instead of /repo itself (used while something
    # else needs /repo unchanged); the check then reads <worktree>/src through NUNAVUT_SRC
    repo = os.environ.get("VERIF_SEEDED_REPO", "/repo")
    assert sh(["git", "-C", repo, "status", "--porcelain"]).stdout.strip() == b"", "%s not clean" % repo
    assert sh(["git", "-C", repo, "rev-parse", "HEAD"]).stdout == sh(["git", "-C", "/repo", "rev-parse", "HEAD"]).stdout, "%s is not at /repo's HEAD" % repo
    ap = sh(["git", "-C", repo, "apply", os.path.join(d, "patch.diff")])
    assert ap.returncode == 0, ap.stdout
    t0 = time.time()
    try:
        env = dict(os.environ)
        env.update({"VERIF_NO_EVIDENCE": "1", "VERIF_QUIET": "1", "VERIF_MINIMISE_RUNS": os.environ.get("VERIF_MINIMISE_RUNS", "40")})
        if repo != "/repo":
            env["NUNAVUT_SRC"] = os.path.join(repo, "src")
        p = sh([os.path.join(HERE, "check"), prop, "--tier", tier], env=env, cwd=HERE, timeout=3600)
        out = p.stdout.decode("utf-8", "replace")
    finally:
        sh(["git", "-C", repo, "checkout", "--", "."])
        sh(["git", "-C", repo, "clean", "-fdq", "src"])
    sigs = sorted({ln.split("signature: ")[1].strip() for ln in out.split("\n") if "signature: " in ln})
    replays = [ln.split("replay=")[1].strip() for ln in out.split("\n") if ln.startswith("VIOLATION ") and "replay=" in ln]
    kept = []
    for i, r in enumerate(replays[:2]):
        if os.path.exists(r):
            dst = os.path.join(d, "replay-%d.json" % i)
            shutil.move(r, dst)
            kept.append(os.path.basename(dst))
    for r in replays[2:]:
        if os.path.exists(r):
            os.remove(r)
    verdict = "DETECTED" if p.returncode == 1 else "MISSED" if p.returncode == 0 else "ERROR rc=%d" % p.returncode
    print("%-34s %s %-8s %4.0fs %s" % (name, prop, verdict, time.time() - t0, "; ".join(sigs)[:200]))
    meta.setdefault("checks", {})[tier] = {"exit": p.returncode, "verdict": verdict, "signatures": sigs, "seconds": round(time.time() - t0, 1), "replays": kept, "command": ("git -C /repo apply seeded/%s/patch.diff; ./check %s --tier %s; git -C /repo checkout -- ." if repo == "/repo" else "git -C <scratch worktree of /repo HEAD> apply seeded/%s/patch.diff; NUNAVUT_SRC=<worktree>/src ./check %s --tier %s; git -C <worktree> checkout -- .") % (name, prop, tier)}
    with open(os.path.join(d, "meta.json"), "w", encoding="utf-8") as f:
        json.dump(meta, f, indent=1)
    return 0 if p.returncode == 1 else 1


if __name__ == "__main__":
    if sys.argv[1] == "confirm":
        sys.exit(confirm(sys.argv[2], sys.argv[3], sys.argv[4], sys.argv[5]))
    if sys.argv[1] == "check":
        tier = sys.argv[4] if len(sys.argv) > 4 and sys.argv[3] == "--tier" else "quick"
        sys.exit(check(sys.argv[2], tier))
    if sys.argv[1] == "check-all":
        rc = 0
        start = sys.argv[sys.argv.index("--from") + 1] if "--from" in sys.argv else ""
        for m in sorted(glob.glob(os.path.join(SEEDED, "*", "meta.json"))):
            name = os.path.basename(os.path.dirname(m))
            if name < start:
                continue
            try:
                rc |= check(name, sys.argv[2] if len(sys.argv) > 2 else "quick")
            except AssertionError as ex:
                print("%-34s NOT-RUN %s" % (name, str(ex)[:200]))
                rc |= 2
        sys.exit(rc)
