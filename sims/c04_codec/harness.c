/*
 * Generic C harness for C04 (generated C codecs: memory-safe, total, free of prior-state influence).
 * Interprets a scheduler-written binary op script over a pool of persistent destination objects ("slots") and
 * exactly-sized heap buffers, under ASan+UBSan+LSan. The type table comes from the generated "types_c.inc".
 * Exit status: 0 ok, 3 invariant failure (a line "INVARIANT ..." on stdout), anything else: sanitizer / crash.
 */
#include <stdint.h>
#include <stddef.h>
#include <stdio.h>
#include <stdlib.h>
#include <string.h>
#include <assert.h>

typedef struct
{
    const char* name;
    size_t      obj_size;
    size_t      extent;
    size_t      bufsize;
    void (*init)(void*);
    int (*ser)(const void*, uint8_t*, size_t*);
    int (*des)(void*, const uint8_t*, size_t*);
    void (*corrupt)(void*, unsigned, unsigned);
    unsigned n_corrupt;
    void (*scribble)(void*, unsigned, unsigned);
    unsigned n_scribble;
} vt_t;

/* "any object contents": one scalar leaf (never a bool) gets an extreme or arbitrary bit pattern; the object stays a
 * valid C object (counts and tags in range), so it may be serialised: success or a documented error, never UB */
static void scrib(void* p, size_t n, unsigned v)
{
    unsigned char* q = (unsigned char*) p;
    if (n == 0) { return; }
    switch (v & 7u)
    {
    case 0: memset(q, 0xFF, n); break;                                  /* -1 / UINT_MAX / NaN */
    case 1: memset(q, 0, n); q[n - 1] = 0x80; break;                    /* INT_MIN / -0.0 (little-endian host) */
    case 2: memset(q, 0xFF, n); q[n - 1] = 0x7F; break;                 /* INT_MAX / NaN */
    case 3: memset(q, 0, n); q[n - 1] = 0x7F; if (n > 1) { q[n - 2] = (n == 8) ? 0xF0 : 0x80; } break; /* +inf */
    case 4: memset(q, 0, n); q[n - 1] = 0xFF; if (n > 1) { q[n - 2] = (n == 8) ? 0xF0 : 0x80; } break; /* -inf */
    case 5: memset(q, 0, n); q[n - 1] = 0x7F; if (n > 1) { q[n - 2] = 0x7F; } break; /* huge finite float */
    case 6: memset(q, 0, n); q[0] = 1; break;                           /* 1 / smallest subnormal */
    default:
        for (size_t i = 0; i < n; i++) { v = v * 1103515245u + 12345u; q[i] = (unsigned char) (v >> 16); }
        break;
    }
}

#include "types_c.inc"

#define N_TYPES (sizeof(TYPES) / sizeof(TYPES[0]))
#define K_SLOTS 4

enum { ST_UNINIT = 0, ST_VALID = 1, ST_INDET = 2, ST_CORRUPT = 3 };

typedef struct { void* obj; int state; } slot_t;

static slot_t SLOTS[N_TYPES][K_SLOTS];
static unsigned long n_ops, n_des_ok, n_des_err, n_ser_ok, n_ser_err, n_ser_skipped, n_reused_decodes, n_poisoned_decodes,
    n_corrupt_ser, n_decode_after_failed, n_decode_into_longer, n_ser_small_cap, n_union_switch, n_scribbled;
static unsigned long err_hist[16];
static long          op_index = -1;

static int documented(int rc)
{
    return rc == 0 || rc == -2 || rc == -3 || rc == -10 || rc == -11 || rc == -12;
}

static void fail(const char* what, const vt_t* t, long a, long b)
{
    printf("INVARIANT %s op=%ld type=%s a=%ld b=%ld\n", what, op_index, t ? t->name : "?", a, b);
    fflush(stdout);
    exit(3);
}

/* A zero-size region is a pointer no byte of which may be touched: the allocator hands out one usable byte for malloc(0), so
 * that byte is poisoned by hand (and unpoisoned before the region is freed). */
void __asan_poison_memory_region(void const volatile* addr, size_t size);
void __asan_unpoison_memory_region(void const volatile* addr, size_t size);
static uint8_t* alloc_exact(size_t len)
{
    uint8_t* p = (uint8_t*) malloc(len ? len : 1);
    if (!p) { fail("oom", NULL, 0, 0); }
    if (len == 0) { __asan_poison_memory_region(p, 1); }
    return p;
}
static void free_exact(uint8_t* p, size_t len)
{
    if (p != NULL && len == 0) { __asan_unpoison_memory_region(p, 1); }
    free(p);
}

static uint8_t* exact_copy(const uint8_t* src, size_t len, int null_if_empty)
{
    if (len == 0 && null_if_empty) { return NULL; }
    uint8_t* p = alloc_exact(len);
    if (len) { memcpy(p, src, len); }
    return p;
}

static void do_des(const vt_t* t, slot_t* s, const uint8_t* bytes, size_t len, int null_if_empty)
{
    uint8_t* buf  = exact_copy(bytes, len, null_if_empty);
    size_t   size = len;
    const int prior = s->state;
    const int rc  = t->des(s->obj, buf, &size);
    if (!documented(rc)) { fail("des-undocumented-return-code", t, rc, 0); }
    if (rc == 0 && size > len) { fail("des-consumed-more-than-supplied", t, (long) size, (long) len); }
    /* the same bytes into a freshly initialised object: the outcome may depend on the bytes only */
    void* fresh = malloc(t->obj_size);
    t->init(fresh);
    uint8_t* buf2  = exact_copy(bytes, len, null_if_empty);
    size_t   size2 = len;
    const int rc2  = t->des(fresh, buf2, &size2);
    if (rc != rc2) { fail("des-return-code-depends-on-prior-state", t, rc, rc2); }
    if (rc == 0)
    {
        if (size != size2) { fail("des-consumed-size-depends-on-prior-state", t, (long) size, (long) size2); }
        const size_t cap = t->bufsize;
        uint8_t*     o1  = (uint8_t*) malloc(cap ? cap : 1);
        uint8_t*     o2  = (uint8_t*) malloc(cap ? cap : 1);
        size_t       s1 = cap, s2 = cap;
        const int    r1 = t->ser(s->obj, o1, &s1);
        const int    r2 = t->ser(fresh, o2, &s2);
        if (!documented(r1)) { fail("ser-undocumented-return-code", t, r1, 0); }
        if (r1 != r2) { fail("decoded-value-depends-on-prior-state(rc)", t, r1, r2); }
        if (r1 == 0 && (s1 != s2 || memcmp(o1, o2, s1) != 0)) { fail("decoded-value-depends-on-prior-state", t, (long) s1, (long) s2); }
        if (r1 == 0 && s1 > cap) { fail("ser-size-exceeds-capacity", t, (long) s1, (long) cap); }
        free(o1);
        free(o2);
        n_des_ok++;
    }
    else
    {
        n_des_err++;
        err_hist[(-rc) & 15]++;
    }
    if (prior == ST_VALID) { n_reused_decodes++; }
    if (prior == ST_INDET) { n_decode_after_failed++; }
    if (prior == ST_CORRUPT) { n_poisoned_decodes++; }
    free(fresh);
    free_exact(buf, len);
    free_exact(buf2, len);
    s->state = (rc == 0) ? ST_VALID : ST_INDET;
}

static void do_ser(const vt_t* t, slot_t* s, uint32_t cap_arg)
{
    if (s->state != ST_VALID && s->state != ST_CORRUPT)
    {
        n_ser_skipped++; /* a C object whose last decode failed is indeterminate: never serialised undecoded */
        return;
    }
    size_t cap = cap_arg;
    if (cap_arg == 0xFFFFFFFFu) { cap = t->bufsize; }
    if (cap_arg == 0xFFFFFFFEu) { cap = t->bufsize + 1; }
    if (cap_arg == 0xFFFFFFFDu) { cap = t->bufsize ? t->bufsize - 1 : 0; }
    if (cap_arg >= 0xFFFFFFF0u && cap_arg <= 0xFFFFFFFCu) { /* bufsize - 2 ... bufsize - 14 */
        const unsigned less = 0xFFFFFFFEu - cap_arg;
        cap = (t->bufsize > less) ? t->bufsize - less : 0;
    }
    uint8_t* buf  = alloc_exact(cap); /* exact size: red zones at both ends; for capacity 0 not a single usable byte */
    size_t   size = cap;
    const int rc  = (buf == NULL) ? -2 : t->ser(s->obj, buf, &size);
    if (!documented(rc)) { fail("ser-undocumented-return-code", t, rc, 0); }
    if (rc == 0 && size > cap) { fail("ser-size-exceeds-capacity", t, (long) size, (long) cap); }
    if (s->state == ST_CORRUPT)
    {
        n_corrupt_ser++;
        if (rc == 0) { fail("ser-accepts-invalid-count-or-tag", t, 0, 0); }
    }
    if (cap < t->bufsize) { n_ser_small_cap++; }
    if (rc == 0) { n_ser_ok++; } else { n_ser_err++; err_hist[(-rc) & 15]++; }
    free_exact(buf, cap);
}

int main(int argc, char** argv)
{
    if (argc < 2) { return 2; }
    FILE* f = fopen(argv[1], "rb");
    if (!f) { return 2; }
    fseek(f, 0, SEEK_END);
    long total = ftell(f);
    fseek(f, 0, SEEK_SET);
    uint8_t* script = (uint8_t*) malloc((size_t) total + 1);
    if (fread(script, 1, (size_t) total, f) != (size_t) total) { return 2; }
    fclose(f);
    if (total < 4 || memcmp(script, "NVS1", 4) != 0) { return 2; }
    for (size_t i = 0; i < N_TYPES; i++)
    {
        for (int k = 0; k < K_SLOTS; k++)
        {
            SLOTS[i][k].obj = malloc(TYPES[i].obj_size);
            memset(SLOTS[i][k].obj, 0xCD, TYPES[i].obj_size);
            SLOTS[i][k].state = ST_UNINIT;
        }
    }
    long pos = 4;
    while (pos + 12 <= total)
    {
        const uint8_t  op = script[pos];
        const uint16_t ti = (uint16_t) (script[pos + 1] | (script[pos + 2] << 8));
        const uint8_t  sl = script[pos + 3];
        uint32_t       arg, len;
        memcpy(&arg, script + pos + 4, 4);
        memcpy(&len, script + pos + 8, 4);
        pos += 12;
        if (pos + (long) len > total) { return 2; }
        const uint8_t* bytes = script + pos;
        pos += len;
        op_index++;
        n_ops++;
        const vt_t* t = &TYPES[ti % N_TYPES];
        slot_t*     s = &SLOTS[ti % N_TYPES][sl % K_SLOTS];
        switch (op)
        {
        case 1: t->init(s->obj); s->state = ST_VALID; break;
        case 2: do_des(t, s, bytes, len, (int) (arg & 1u)); break;
        case 3: do_ser(t, s, arg); break;
        case 12: /* sweep: the object as it is, serialised into a buffer of every size from 0 to one more than advertised */
            for (unsigned c12 = 0; c12 <= (unsigned) t->bufsize + 1u && c12 < 4096u; ++c12) { do_ser(t, s, c12); }
            break;
        case 4: memset(s->obj, (int) (arg & 0xFFu), t->obj_size); s->state = ST_INDET; break; /* poison: only ever decoded into */
        case 5:
            if (t->n_corrupt > 0 && s->state == ST_VALID)
            {
                t->corrupt(s->obj, (arg >> 16) & 0xFFFFu, arg & 0xFFFFu);
                s->state = ST_CORRUPT;
            }
            break;
        case 11:
            if (t->n_scribble > 0 && s->state == ST_VALID)
            {
                t->scribble(s->obj, (arg >> 16) & 0xFFFFu, arg & 0xFFFFu);
                n_scribbled++;
            }
            break;
        case 6: /* copy from another slot of the same type (plain struct assignment by memcpy) */
        {
            slot_t* o = &SLOTS[ti % N_TYPES][arg % K_SLOTS];
            if (o != s && o->state != ST_UNINIT) { memcpy(s->obj, o->obj, t->obj_size); s->state = o->state; }
            break;
        }
        default: break;
        }
    }
    for (size_t i = 0; i < N_TYPES; i++) { for (int k = 0; k < K_SLOTS; k++) { free(SLOTS[i][k].obj); } }
    free(script);
    printf("STATS {\"ops\":%lu,\"des_ok\":%lu,\"des_err\":%lu,\"ser_ok\":%lu,\"ser_err\":%lu,\"ser_skipped\":%lu,\"decode_into_used_slot\":%lu,"
           "\"decode_after_failed_decode\":%lu,\"decode_into_corrupted_slot\":%lu,\"ser_of_corrupted\":%lu,\"ser_small_cap\":%lu,"
           "\"err_bad_array_length\":%lu,\"err_bad_union_tag\":%lu,\"err_bad_delimiter_header\":%lu,\"err_buffer_too_small\":%lu,\"err_invalid_argument\":%lu,\"scalar_leaf_scribbled\":%lu}\n",
           n_ops, n_des_ok, n_des_err, n_ser_ok, n_ser_err, n_ser_skipped, n_reused_decodes, n_decode_after_failed, n_poisoned_decodes, n_corrupt_ser,
           n_ser_small_cap, err_hist[10], err_hist[11], err_hist[12], err_hist[3], err_hist[2], n_scribbled);
    (void) n_decode_into_longer;
    (void) n_union_switch;
    return 0;
}
