"""
C11 - types map one-to-one onto files in the output tree; the namespace model is a tree (DESIGN section 2, C11).

Claimed for its I/O-observable clauses: containment, write-once, expected path set, cross-root include targets over
a two-run history; the tree clause is evaluated as an in-run invariant and is only *sampled* over generated inputs.
"""
import hashlib
import os
import re
import typing

from simkit import dsdlgen, nnvg, proc, snapshot
from simkit.rng import Rng
from simkit.seams import is_mutating

PROP = "C11"
LEVEL = "exploration"
RULE = (
    "A case is a seeded DSDL namespace set generated under a scheduler-chosen ambient world (cwd, output directory "
    "location and spelling: relative, ./x/, ../y/x, absolute, trailing slash, spaces and non-ASCII in names; extension "
    "and namespace-stem overrides; clean or dirty directory) as a history: root A, then every root A refers to into the "
    "same directory. Distinct = digest of (language, overrides, cwd, spelling, roots order, dirtiness); non-trivial = at "
    "least one run succeeded and its created set was compared with the reference path set."
)
STATE_MEASURE = "digest of the output directory after each run"
COMPONENTS = {
    "real": ["nunavut (CLI, namespace model, generators)", "pydsdl", "vendored Jinja2", "CPython 3.12", "tmpfs file system"],
    "stub": ["clock (frozen)", "cwd / output location / spelling chosen by the scheduler", "directory enumeration order (seeded permutation)", "POSIX owner permission check", "PYTHONHASHSEED chosen by the scheduler"],
}  # fmt: skip
ASSUMPTIONS = [
    "nunavut's own 'path' stropping filter is trusted (stropping is C09, not claimed); the 15-line reference composes it into outdir/strop(namespace components)/strop(Short_M_m)+extension",
    "pairs of names that the documented one-way stropping folds onto one identifier are not generated",
    "the tree clause (each type and each ancestor namespace exactly once, consistent links, total path lookup) is evaluated in-run on the object build_namespace_tree returns and is only sampled over generated namespace sets",
    "include/import targets are recognised by a regular expression over generated C/C++/Python text",
]

CWDS = ["cwd", "cwd/deeper/still", ".", "in", "work dir"]
OUTS = ["out", "build/gen/out", "cwd/out", "o u t", "out-é", "in/generated"]
SPELLINGS = ["abs", "rel", "rel_dot", "abs_slash", "rel_slash", "dotdot", "symlink_dotdot", "symlink_dotdot_rel"]


def n_cases(tier: str) -> int:
    return 700 if tier == "quick" else 12000


def budget_s(tier: str) -> float:
    return 170.0 if tier == "quick" else 1500.0


def case_timeout_s(tier: str) -> float:
    return 300.0


def directed_cases(seed: int, tier: str) -> typing.List[dict]:
    out = []
    for li, lang in enumerate(["c", "cpp", "py", "html"]):
        for si, sp in enumerate(SPELLINGS):
            out.append(
                {
                    "label": "directed-%s-%s" % (lang, sp),
                    "dsdl_seed": [seed, PROP, "directed", si % 3],
                    "fixed": {"lang": lang, "outdir_spelling": sp, "cwd_rel": CWDS[si % len(CWDS)], "out_rel": OUTS[si % len(OUTS)]},
                }
            )
    # one token as member, as namespace and as path component within one run: fields called like the (lookup) roots and like a
    # nested namespace, all of them names that match a reserved pattern of ONE identifier kind only
    same_token = {
        "roots": ["regs", "tools", "memory_map", "str"],
        "files": {
            "tools/Block.1.0.dsdl": "uint8 v\n@sealed\n",
            "memory_map/Page.1.0.dsdl": "uint8 v\n@sealed\n",
            "str/Chunk.1.0.dsdl": "uint8 v\n@sealed\n",
            "regs/Alpha.1.0.dsdl": "uint8 tools\nuint8 memory_map\nuint8 str\nuint8 stream\nuint8 atomic_ops\n@sealed\n",
            "regs/Beta.1.0.dsdl": "tools.Block.1.0 a\nmemory_map.Page.1.0 b\nstr.Chunk.1.0 c\nregs.stream.Deep.1.0 d\nregs.atomic_ops.Deep.1.0 e\n@sealed\n",
            "regs/stream/Deep.1.0.dsdl": "uint8 v\n@sealed\n",
            "regs/nav/A.1.0.dsdl": "uint8 v\n@sealed\n",
            "regs/navigation/B.1.0.dsdl": "regs.nav.A.1.0 a\n@sealed\n",
            "regs/navigation/deep/C.1.0.dsdl": "regs.navigation.B.1.0 b\n@sealed\n",
            "regs/if/D.1.0.dsdl": "uint8 v\n@sealed\n",
            "regs/iffy/sub/E.1.0.dsdl": "regs.if.D.1.0 d\n@sealed\n",
            "regs/atomic_ops/Deep.1.0.dsdl": "uint8 v\n@sealed\n",
        },
    }
    for lang in ["c", "cpp", "py"]:
        out.append(
            {
                "label": "directed-same-token-%s" % lang,
                "dsdl": same_token,
                "deps": {"regs": ["tools", "memory_map", "str"], "tools": [], "memory_map": [], "str": []},
                "plan": {"lang": lang, "cwd_rel": CWDS[0], "out_rel": OUTS[0], "outdir_spelling": "abs", "in_spelling": "abs", "root_spelling": None, "roots_order": ["regs", "tools", "memory_map", "str"], "lookup_all": False, "enum_seed": 7, "dirty": False, "support": None},
            }
        )
    return out


def gen_case(seed: int, index: int, tier: str) -> dict:
    return {"dsdl_seed": [seed, PROP, "dsdl", index // 2], "ops_seed": [seed, PROP, "ops", index], "tier": tier}


# --------------------------------------------------------------------------------------------------------------------
# in-run invariant on the namespace tree (runs inside the forked child)


def install_tree_invariants(seams: typing.Any) -> typing.Callable[[], None]:
    import nunavut.cli.runners as runners

    real = runners.build_namespace_tree

    built = []  # type: typing.List[typing.Tuple[typing.Any, list, typing.Any]]

    def wrapped(types, root_namespace_dir, output_dir, language_context):  # type: ignore
        root = real(types, root_namespace_dir, output_dir, language_context)
        built.append((root, list(types), language_context))
        return root

    runners.build_namespace_tree = wrapped

    def after_the_run() -> None:
        # The model is inspected AFTER the invocation under test has finished: looking at it earlier would call into the code
        # under test (path lookups, stropping) before the generation does, and so decide what its memos hold when files are made.
        for root, types, language_context in built:
            seams.enabled = False
            try:
                problems = check_tree(root, types, language_context)
            except Exception as ex:  # pylint: disable=broad-except
                problems = ["exception while checking the tree: %s: %s" % (type(ex).__name__, ex)]
            finally:
                seams.enabled = True
            seams.record("inrun-tree", None, {"n_types": len(types), "problems": problems[:5]})

    return after_the_run


def check_tree(root: typing.Any, types: list, lctx: typing.Any) -> typing.List[str]:
    problems = []  # type: typing.List[str]
    if not types:
        return problems
    lang = lctx.get_target_language()

    def strop(c: str) -> str:
        return lctx.filter_id_for_target(c, "path")

    # a caller may look at the first entry only (any(...), next(...)) before walking everything: a walk that was abandoned
    # must not decide what later walks see
    next(iter(root.get_all_datatypes()), None)
    next(iter(root.get_all_types()), None)
    next(iter(root.get_all_namespaces()), None)
    # each type exactly once
    dts = list(root.get_all_datatypes())
    ids = [id(t) for t, _ in dts]
    if sorted(ids) != sorted(id(t) for t in types):
        problems.append("get_all_datatypes yields %d entries (%d distinct) for %d input types" % (len(ids), len(set(ids)), len(types)))
    paths = [str(p) for _, p in dts]
    if len(set(paths)) != len(paths):
        problems.append("two types share one output path")
    # every namespace on the way from the root to a type exactly once
    expected_ns = set()
    for t in types:
        comps = [strop(c) for c in t.name_components[:-1]]
        for i in range(1, len(comps) + 1):
            expected_ns.add(".".join(comps[:i]))
    nss = list(root.get_all_namespaces())
    names = [n.full_name for n, _ in nss]
    if sorted(names) != sorted(expected_ns):
        problems.append("namespaces %r != expected %r" % (sorted(names), sorted(expected_ns)))
    # links
    by_name = {n.full_name: n for n, _ in nss}
    child_count = {}  # type: typing.Dict[str, int]
    for n, _ in nss:
        if n.get_root_namespace() is not root:
            problems.append("namespace %s does not lead back to the root" % n.full_name)
        for ch in n.get_nested_namespaces():
            child_count[ch.full_name] = child_count.get(ch.full_name, 0) + 1
            if ch.full_name.rsplit(".", 1)[0] != n.full_name:
                problems.append("%s is nested in %s" % (ch.full_name, n.full_name))
        for t, p in n.get_nested_types():
            if ".".join(strop(c) for c in t.name_components[:-1]) != n.full_name:
                problems.append("type %s listed in namespace %s" % (t.full_name, n.full_name))
    for name in by_name:
        want = 0 if name == root.full_name else 1
        if child_count.get(name, 0) != want:
            problems.append("namespace %s has %d parents" % (name, child_count.get(name, 0)))
    # total path lookup, from every node
    mapping = {id(t): p for t, p in dts}
    for n, np in nss:
        for t in types:
            try:
                if n.find_output_path_for_type(t) != mapping.get(id(t)):
                    problems.append("find_output_path_for_type(%s) from %s disagrees" % (t.full_name, n.full_name))
            except KeyError:
                problems.append("find_output_path_for_type(%s) from %s raises KeyError" % (t.full_name, n.full_name))
        if root.find_output_path_for_type(n) != np:
            problems.append("find_output_path_for_type(namespace %s) disagrees" % n.full_name)
    alls = list(root.get_all_types())
    if len(alls) != len(dts) + len(nss):
        problems.append("get_all_types yields %d entries, expected %d" % (len(alls), len(dts) + len(nss)))
    del lang
    return problems


# --------------------------------------------------------------------------------------------------------------------


def expected_paths(in_dir: str, root: str, lookups: typing.List[str], opts: dict, cfg_path: typing.Optional[str] = None) -> typing.Tuple[typing.Set[str], typing.Set[str]]:
    """The reference: (type files, namespace files) relative to the output directory."""
    import pydsdl
    from nunavut.lang import Language, LanguageContextBuilder

    b = LanguageContextBuilder(include_experimental_languages=True).set_target_language(opts["lang"])
    ext = opts.get("ext")
    if ext and not ext.startswith("."):
        ext = "." + ext  # documented: nnvg heals a missing dot (the empty extension stays empty: files without one)
    if cfg_path:
        import pathlib

        b.add_config_files(pathlib.Path(cfg_path))
    b.set_target_language_extension(ext)
    b.set_target_language_configuration_override(Language.WKCV_NAMESPACE_FILE_STEM, opts.get("ns_stem"))
    lctx = b.create()
    lang = lctx.get_target_language()
    extension = lang.extension
    stem = lang.get_config_value(Language.WKCV_NAMESPACE_FILE_STEM, "_")

    def strop(c: str) -> str:
        return lctx.filter_id_for_target(c, "path") if lang.enable_stropping else c

    types = pydsdl.read_namespace(os.path.join(in_dir, root), [os.path.join(in_dir, x) for x in lookups], allow_unregulated_fixed_port_id=True)
    tfiles, nfiles = set(), set()
    for t in types:
        comps = [strop(c) for c in t.name_components[:-1]]
        tfiles.add("/".join(comps + [strop("%s_%d_%d" % (t.short_name, t.version.major, t.version.minor)) + extension]))
        for i in range(1, len(comps) + 1):
            nfiles.add("/".join(comps[:i] + [stem + extension]))
    ns_generated = bool(opts.get("ns_types")) or lang.has_standard_namespace_files
    return tfiles, (nfiles if ns_generated else set())


_INC = re.compile(r'^\s*#\s*include\s*[<"]([^>"]+)[>"]', re.M)
_IMP = re.compile(r"^\s*import\s+([A-Za-z_][\w.]*)\s*$", re.M)


def referenced_files(out_dir: str, rel_files: typing.Iterable[str], lang: str, ns_file: str) -> typing.Dict[str, str]:
    """{referenced relative path: referring file} for include/import targets that live in a generated namespace."""
    out = {}  # type: typing.Dict[str, str]
    for rel in rel_files:
        try:
            with open(os.path.join(out_dir, rel), "r", encoding="utf-8") as f:
                text = f.read()
        except (OSError, UnicodeDecodeError):
            continue
        if lang in ("c", "cpp"):
            for m in _INC.finditer(text):
                out.setdefault(m.group(1), rel)
        elif lang == "py":
            for m in _IMP.finditer(text):
                mod = m.group(1)
                # an imported package is the directory holding the namespace file the generator writes for it
                out.setdefault(mod.replace(".", "/") + "/" + ns_file, rel)
                for m2 in re.finditer(r"(?<![\w.])" + re.escape(mod) + r"\.([A-Za-z_]\w*_\d+_\d+)\b", text):
                    out.setdefault(mod.replace(".", "/") + "/" + m2.group(1) + ".py", rel)
    return out


def run_case(case: dict, ctx: dict) -> dict:
    stats = {}  # type: typing.Dict[str, typing.Any]
    counters = {"ops": {}, "probes": {}, "status": {}}  # type: typing.Dict[str, typing.Dict[str, int]]

    def bump(group: str, key: str, n: int = 1) -> None:
        counters[group][key] = counters[group].get(key, 0) + n

    sandbox = os.path.join(ctx["scratch"], "disk")
    os.makedirs(sandbox)
    if "dsdl" in case:
        roots, files = case["dsdl"]["roots"], case["dsdl"]["files"]
        if dsdlgen.validate(files, roots, os.path.join(ctx["scratch"], "val")) is not None:
            return {"violations": [], "evaluations": 0, "skipped": 1, "executed": case, "counters": counters}
        ds = None
    else:
        ds = dsdlgen.generate_valid(tuple(case["dsdl_seed"]), os.path.join(ctx["scratch"], "val"), stats=stats)
        roots, files = ds.roots, ds.files
    tier = case.get("tier", ctx.get("tier", "quick"))
    r = Rng(*case["ops_seed"]) if "ops_seed" in case else Rng(PROP, "directed", case.get("label", ""))

    if "plan" in case:
        plan = dict(case["plan"])
    else:
        assert ds is not None
        fixed = case.get("fixed", {})
        lang = fixed.get("lang") or r.weighted([("c", 4), ("cpp", 3), ("py", 4), ("html", 1)])
        with_deps = [x for x in roots if ds.root_deps(x)]
        first = r.choice(with_deps) if with_deps and r.chance(3, 4) else r.choice(roots)
        order = [first] + [x for x in ds.root_deps(first)]
        if r.chance(1, 3):
            order += [x for x in roots if x not in order]
        plan = {
            "lang": lang,
            "cwd_rel": fixed.get("cwd_rel") or r.choice(CWDS),
            "out_rel": fixed.get("out_rel") or r.choice(OUTS),
            "outdir_spelling": fixed.get("outdir_spelling") or r.choice(SPELLINGS),
            "in_spelling": r.choice(["abs", "rel"]),
            "root_spelling": r.choice([None, None, None, "child_dotdot", "symlink_alias"]),
            "roots_order": order,
            "lookup_all": r.chance(1, 4),
            "enum_seed": r.below(1 << 30),
            "dirty": r.chance(1, 3),
            "support": r.choice([None, "never", "always", "only"]),
        }
        if r.chance(1, 4) and lang in ("c", "cpp"):
            plan["ext"] = r.choice([".h", ".hh", "hpp", ".inc", ".h.in", ""])  # ("" is legal: files without an extension)
        if r.chance(1, 4):
            plan["ns_stem"] = r.choice(["_ns", "index", "module", "nsfile"])
        if r.chance(1, 4) and lang in ("py", "html"):
            plan["ns_types"] = True
        if lang == "cpp" and r.chance(1, 3):
            plan["std"] = r.choice(["c++14", "c++17", "c++17-pmr", "c++20"])
        if lang in ("c", "cpp") and r.chance(1, 5):
            plan["no_strop"] = True  # enable_stropping: false through a --configuration file
        if lang != "html" and r.chance(1, 4):
            # user templates that print type_to_include_path / an incomplete set (generation must then fail, never skip types)
            plan["templates"] = r.choice(["paths", "paths", "struct_only"])
    lang = plan["lang"]
    world = nnvg.World(sandbox, out_rel=plan["out_rel"], cwd_rel=plan["cwd_rel"])
    dsdlgen.materialize_files(files, roots, world.in_dir)
    out = world.out_dir
    cfg_path = None
    if plan.get("no_strop"):
        cfg_path = os.path.join(world.sandbox, "no_strop.yaml")
        with open(cfg_path, "w", encoding="utf-8") as f:
            f.write("nunavut.lang.%s:\n  enable_stropping: false\n" % lang)
    if plan.get("templates"):
        from simkit import usertpl

        usertpl.plant(world.tpl_dir, plan["templates"], usertpl.SETS[plan["templates"]])
    if plan.get("dirty"):
        os.makedirs(os.path.join(out, "old", "stuff"), exist_ok=True)
        with open(os.path.join(out, "old", "stuff", "leftover.h"), "w", encoding="utf-8") as f:
            f.write("leftover\n")
        os.chmod(os.path.join(out, "old", "stuff", "leftover.h"), 0o444)

    violations = []  # type: typing.List[dict]
    states = []  # type: typing.List[str]
    evaluations = 0
    compared = 0

    def violation(sig: str, detail: dict) -> None:
        violations.append({"signature": "%s:%s" % (PROP, sig), "detail": detail})

    def deps_of(root: str) -> typing.List[str]:
        if plan.get("lookup_all"):
            return [x for x in roots if x != root]
        if ds is not None:
            return ds.root_deps(root)
        return case.get("deps", {}).get(root, [x for x in roots if x != root])

    all_refs = {}  # type: typing.Dict[str, str]
    ev_digests = []  # type: typing.List[str]
    world.spell(out, plan["outdir_spelling"])  # (creates the symbolic link some spellings go through, before any snapshot)
    created_by_root = {}  # type: typing.Dict[str, typing.Set[str]]
    deps_record = {}
    out_real_rel = os.path.relpath(os.path.realpath(out) if os.path.exists(out) else out, world.sandbox)
    for step, root in enumerate(plan["roots_order"]):
        lookups = deps_of(root)
        deps_record[root] = lookups
        opts = {"lang": lang, "root": root, "lookups": lookups, "outdir_spelling": plan["outdir_spelling"], "in_spelling": plan["in_spelling"]}
        if plan.get("root_spelling"):
            opts["root_spelling"] = plan["root_spelling"]
            world.spell(os.path.join(world.in_dir, root), plan["root_spelling"])  # (the link exists before any snapshot)
        for k in ("ext", "ns_stem", "ns_types", "std"):
            if plan.get(k) or (k == "ext" and plan.get(k) == ""):
                opts[k] = plan[k]
        if plan.get("support"):
            opts["gen_support"] = plan["support"]
        if plan.get("templates"):
            opts["templates"] = plan["templates"]
        if cfg_path:
            opts["extra_argv"] = ["--configuration", cfg_path, "--verbose"]
        try:
            tfiles, nfiles = expected_paths(world.in_dir, root, lookups, opts, cfg_path)
        except Exception as ex:  # pylint: disable=broad-except
            bump("ops", "skipped-reference-raises:" + type(ex).__name__)
            continue
        if plan.get("support") == "only":
            tfiles, nfiles = set(), set()  # only support files are generated: no type and no namespace file
        pre_out = snapshot.files_of(snapshot.snapshot(out, with_mtime=False))
        before = {k: v for k, v in snapshot.snapshot(world.sandbox, with_mtime=True).items() if not _under(k, out_real_rel)}
        inv = world.invocation(opts, enum_seed=plan["enum_seed"] + step, inrun=["sims.c11:install_tree_invariants"])
        res = proc.run_invocation(inv)
        evaluations += 1
        ev_digests.append(nnvg.event_digest(res))
        bump("status", res["status"])
        bump("ops", "generate")
        after_all = snapshot.snapshot(world.sandbox, with_mtime=True)
        after = {k: v for k, v in after_all.items() if not _under(k, out_real_rel)}
        post_out = snapshot.files_of(snapshot.snapshot(out, with_mtime=False))
        states.append(snapshot.digest(snapshot.snapshot(out, with_mtime=False)))
        brief = {"status": res["status"], "argv": inv["argv"][1:], "cwd": os.path.relpath(world.cwd, world.sandbox), "exc": res.get("exc_msg", "")[:300]}
        # (1) containment, judged on every run whether or not it succeeded
        escaped = []
        writes = []
        for e in res["events"]:
            kind, rel, extra = e[1], e[2], e[3]
            if rel is None:
                continue
            if not is_mutating(kind):
                continue
            if not str(rel).startswith("@"):
                if rel not in (os.devnull,):
                    escaped.append([kind, rel])
                continue
            inside = rel[2:] if rel != "@" else ""
            if not _under(inside, out_real_rel) and not _is_ancestor(inside, out_real_rel):
                escaped.append([kind, rel])
            if kind == "open-w":
                writes.append(rel)
        if escaped:
            violation("mutation-outside-output-directory:%s" % escaped[0][0], dict(brief, escaped=escaped[:6]))
        d = snapshot.diff(before, after)
        d = [x for x in d if not _is_ancestor(x.split(" ")[1], out_real_rel)]
        if d:
            violation("disk-changed-outside-output-directory", dict(brief, diff=d[:6]))
        # (2) write-once
        dup = sorted({w for w in writes if writes.count(w) > 1})
        if dup:
            violation("path-written-twice:%s" % nnvg.sig_kind(dup[0]), dict(brief, paths=dup[:5]))
        # (5) in-run tree invariant
        for e in res["events"]:
            if e[1] == "inrun-tree":
                bump("probes", "tree_checked")
                if e[3]["problems"]:
                    violation("namespace-tree:%s" % re.sub(r"[^a-z]+", "-", e[3]["problems"][0].lower())[:40], dict(brief, problems=e[3]["problems"]))
        if not nnvg.succeeded(res):
            bump("ops", "run-failed")
            # the spelling of the output directory must not decide whether generation succeeds: try the absolute one
            if opts.get("outdir_spelling", "abs") != "abs" or opts.get("in_spelling", "abs") != "abs" or opts.get("root_spelling"):
                res2 = proc.run_invocation(world.invocation(dict(opts, outdir_spelling="abs", in_spelling="abs", root_spelling=None), enum_seed=plan["enum_seed"] + step))
                evaluations += 1
                if nnvg.succeeded(res2):
                    violation("generation-fails-only-for-this-path-spelling:%s" % res["status"], dict(brief, outdir_spelling=opts.get("outdir_spelling"), in_spelling=opts.get("in_spelling")))
            continue
        # (3) expected path set: what this run created, minus support files
        created = {p for p in post_out if p not in pre_out or post_out[p] != pre_out[p]} | {w[len("@/") + len(out_real_rel) + 1 :] for w in writes}
        nonsupport = {p for p in created if nnvg.sig_kind(p) != "support"}
        compared += 1
        want = tfiles | nfiles
        if nonsupport != want:
            extra_ = sorted(nonsupport - want)
            missing = sorted(want - nonsupport)
            k = "extra:%s" % _fk(extra_[0], nfiles, plan) if extra_ else "missing:%s" % _fk(missing[0], nfiles, plan)
            violation("path-set-%s" % k, dict(brief, extra=extra_[:5], missing=missing[:5]))
        if plan.get("templates") == "paths":
            for rel in sorted(nonsupport & tfiles):
                try:
                    with open(os.path.join(out, rel), "r", encoding="utf-8") as f:
                        lines = f.read().split("\n")
                except OSError:
                    continue
                for ln in lines:
                    if ln.startswith("SELF ") and ln[5:] != rel:
                        violation("type-to-include-path-differs-from-output-path", dict(brief, file=rel, filter_says=ln[5:]))
                    elif ln.startswith("REF "):
                        all_refs.setdefault(ln[4:], "%s (type_to_include_path, root %s)" % (rel, root))
                bump("probes", "type_to_include_path_checked")
        created_by_root[root] = created
        all_refs.update({k: "%s (root %s)" % (v, root) for k, v in referenced_files(out, sorted(nonsupport), lang, (plan.get("ns_stem") or "__init__") + ".py").items()})
        if step > 0:
            bump("probes", "second_root_into_same_directory")

    # (4) cross-root consistency: once every involved root was generated, every reference must resolve
    generated_roots = set(created_by_root)
    if generated_roots and all(set(deps_of(x)) <= generated_roots for x in generated_roots):
        final = snapshot.files_of(snapshot.snapshot(out, with_mtime=False))
        firsts = {p.split("/")[0] for s in created_by_root.values() for p in s}
        # (a reference is "ours" if it points below a directory some run created, or if it is spelled like the file of a type -
        # <dir>/<Short>_<major>_<minor><ext> - wherever it points: every involved root has been generated by now)
        type_like = re.compile(r"^(?!nunavut/).+/[A-Za-z_]\w*_\d+_\d+(\.\w+)+$")
        unresolved = sorted(p for p in all_refs if (p.split("/")[0] in firsts or type_like.match(p)) and p not in final)
        if plan.get("support") == "never":
            unresolved = [p for p in unresolved if nnvg.sig_kind(p) != "support"]
        if all_refs:
            bump("probes", "references_checked", len(all_refs))
        if unresolved:
            violation("dangling-reference:%s" % nnvg.sig_kind(unresolved[0]), {"unresolved": unresolved[:5], "referrer": all_refs[unresolved[0]], "lang": lang})

    exec_case = {
        "label": case.get("label"),
        "hash_seed": case.get("hash_seed", 0),
        "dsdl": {"roots": list(roots), "files": dict(files)},
        "deps": deps_record,
        "plan": plan,
        "tier": tier,
    }
    key = hashlib.sha256(repr(sorted((k, str(v)) for k, v in plan.items() if k not in ("enum_seed",))).encode()).hexdigest()[:16]
    counters["dsdl"] = {k: v for k, v in stats.items() if isinstance(v, int)}
    return {
        "violations": violations,
        "executed": exec_case,
        "evaluations": evaluations,
        "nontrivial_keys": [key] if compared else [],
        "states": states,
        "counters": counters,
        "sim_time_s": 0.0,
        "sample": {"plan": plan, "n_dsdl_files": len(files)},
        "digest": hashlib.sha256((key + "|".join(ev_digests) + "|".join(sorted(v["signature"] for v in violations))).encode()).hexdigest()[:16],
    }


def _under(rel: str, base: str) -> bool:
    return rel == base or rel.startswith(base + "/")


def _is_ancestor(rel: str, base: str) -> bool:
    """rel is a proper ancestor directory of base (creating the chain of parents of the output directory is fine)."""
    return rel == "" or base.startswith(rel + "/")


def _fk(path: str, nfiles: typing.Set[str], plan: dict) -> str:
    return "namespace" if path in nfiles or os.path.splitext(os.path.basename(path))[0] in ("__init__", "index", "_namespace_", "_", plan.get("ns_stem", "_")) else "type"


def reductions(case: dict) -> typing.Iterator[dict]:
    plan = case["plan"]
    if len(plan["roots_order"]) > 1:
        for i in range(len(plan["roots_order"])):
            c = dict(case)
            c["plan"] = dict(plan, roots_order=plan["roots_order"][:i] + plan["roots_order"][i + 1 :])
            yield c
    for k, neutral in (("dirty", False), ("no_strop", None), ("templates", None), ("ext", None), ("ns_stem", None), ("ns_types", None), ("std", None), ("support", None), ("lookup_all", False), ("cwd_rel", "cwd"), ("out_rel", "out"), ("outdir_spelling", "abs"), ("in_spelling", "abs"), ("root_spelling", None)):
        if plan.get(k) not in (neutral, None):
            c = dict(case)
            c["plan"] = dict(plan)
            c["plan"][k] = neutral
            yield c
    yield from nnvg.reduce_dsdl(case)
