"""
C12 - regeneration over existing output is safe for every history of runs (DESIGN section 2, C12).

A history of nnvg invocations and directory edits against one output directory on the simulated disk, with a
simulated unprivileged owner, I/O errors, torn writes, crashes and a failing external post-processor landing
while files are being produced. Oracle: the generator itself in a pristine world.
"""
import hashlib
import os
import typing

from simkit import dsdlgen, nnvg, proc, snapshot
from simkit.rng import Rng

PROP = "C12"
LEVEL = "fault_enumeration"
RULE = (
    "A case is a history of 2-8 operations (generate with varying --file-mode/--no-overwrite/--omit-serialization-"
    "support/--generate-support/post-processor flags, chmod/plant/truncate/remove of files in the output directory, entries "
    "replaced by symbolic or hard links to files elsewhere on the disk) "
    "over one seeded DSDL namespace set, each generate optionally hit by one fault (I/O error or crash at a "
    "mutating call, failed or torn write, failing external program) placed inside the span in which the reference "
    "run produces files. Distinct = digest of (op kinds, option deltas, fault kinds and positions); non-trivial = "
    "the history regenerates over existing output at least once or contains a fault."
)
STATE_MEASURE = "digest of the output directory (paths, modes, content hashes) after each operation"
COMPONENTS = {
    "real": ["nunavut (CLI, generators, post-processors, templates)", "pydsdl", "vendored Jinja2", "PyYAML", "CPython 3.12", "tmpfs file system"],
    "stub": ["clock (frozen)", "directory enumeration order (sorted)", "POSIX owner permission check (process is root)", "fault injector at audit events and write()", "crash = os._exit(137) in the forked child", "external formatter program (in-process fake)", "PYTHONHASHSEED chosen by the scheduler"],
}  # fmt: skip
ASSUMPTIONS = [
    "crash model is process death with a surviving OS (no power loss; nunavut never fsyncs and the property promises no durability)",
    "the reference is nunavut itself run fault-free into an empty directory at the same path under the same frozen ambient state; common-mode errors of both runs are invisible",
    "obstacles placed in the output directory are regular files only (no directory where a file belongs, no read-only directories, no symlinks)",
    "DSDL inputs and option sets are sampled, not enumerated",
    "progress is not asserted for a run with an external post-processor over a leftover file without owner read permission (the external program itself cannot read it)",
]

LANGS = ["c", "cpp", "py", "html"]
# (with the special bits: set-gid / sticky / set-uid are permission bits too, requested or left on a file by someone else)
FILE_MODES = [0o444, 0o644, 0o600, 0o664, 0o400, 0o640, 0o2644, 0o1444]
FILE_MODES_THOROUGH = FILE_MODES + [0o200, 0o440, 0o666, 0o4755, 0o3640]
FAULT_KINDS = ["oserror", "crash", "write_oserror", "write_crash", "refused_chmod"]


def n_cases(tier: str) -> int:
    return 150 if tier == "quick" else 6000


def budget_s(tier: str) -> float:
    return 150.0 if tier == "quick" else 1500.0


def case_timeout_s(tier: str) -> float:
    return 300.0


def directed_cases(seed: int, tier: str) -> typing.List[dict]:
    out = []
    scripts = {
        "ro-then-regen": [{"op": "generate", "opts": {"file_mode": 0o444}}, {"op": "generate", "opts": {"file_mode": 0o444}}],
        "regen-no-overwrite": [{"op": "generate", "opts": {}}, {"op": "generate", "opts": {"no_overwrite": True}}],
        "crash-then-regen": [
            {"op": "generate", "opts": {}, "fault_pick": ["write_crash"]},
            {"op": "generate", "opts": {}},
        ],
        "mode-change": [{"op": "generate", "opts": {"file_mode": 0o400}}, {"op": "generate", "opts": {"file_mode": 0o664}}],
        "support-ro": [
            {"op": "generate", "opts": {"gen_support": "only", "file_mode": 0o444}},
            {"op": "generate", "opts": {"gen_support": "always", "file_mode": 0o644}},
        ],
        "symlinked-entries-then-regen": [
            {"op": "generate", "opts": {"file_mode": 0o444}},
            {"op": "link", "pick": 0, "style": "sym_outside", "content": "keep", "mode": 0o444},
            {"op": "link", "pick": -1, "style": "sym_inside", "content": "foreign\n", "mode": 0o644},
            {"op": "generate", "opts": {"file_mode": 0o640}},
            {"op": "generate", "opts": {"file_mode": 0o444, "no_overwrite": True}},
        ],
        "hardlinked-entry-then-regen": [
            {"op": "generate", "opts": {}},
            {"op": "link", "pick": 1, "style": "hard", "content": "keep", "mode": 0o444},
            {"op": "generate", "opts": {"file_mode": 0o600}},
        ],
        "chmod0-then-regen": [
            {"op": "generate", "opts": {}},
            {"op": "chmod", "pick": 0, "mode": 0o000},
            {"op": "chmod", "pick": -1, "mode": 0o111},
            {"op": "generate", "opts": {"file_mode": 0o644}},
        ],
        "scratch-named-neighbours-then-no-overwrite": [
            {"op": "plant", "pick_future": 0, "suffix": ".tmp", "content": "foreign\n", "mode": 0o444},
            {"op": "plant", "pick_future": 1, "suffix": ".bak", "content": "foreign\n", "mode": 0o644},
            {"op": "plant", "pick_future": 2, "suffix": "~", "content": "", "mode": 0o400},
            {"op": "generate", "opts": {"no_overwrite": True}},
            {"op": "generate", "opts": {"file_mode": 0o640}},
            {"op": "generate", "opts": {"no_overwrite": True, "gen_support": "never"}},
        ],
        "foreign-then-no-overwrite": [
            {"op": "plant", "pick_future": 0, "content": "foreign\n", "mode": 0o644},
            {"op": "generate", "opts": {"no_overwrite": True}},
            {"op": "generate", "opts": {}},
        ],
        "extprog-rename": [
            {"op": "generate", "opts": {"pp_prog": "rename", "file_mode": 0o444}},
            {"op": "generate", "opts": {"pp_prog": "rename", "file_mode": 0o640}},
            {"op": "generate", "opts": {"pp_prog": True, "file_mode": 0o444}},
        ],
        "refused-chmod-then-regen": [
            {"op": "generate", "opts": {"file_mode": 0o444}},
            {"op": "generate", "opts": {"file_mode": 0o640}, "fault_pick": ["refused_chmod"]},
            {"op": "generate", "opts": {"file_mode": 0o640}, "fault_pick": ["refused_chmod"]},
            {"op": "generate", "opts": {"file_mode": 0o600}, "fault_pick": ["refused_chmod"]},
            {"op": "generate", "opts": {"file_mode": 0o640}},
        ],
        "extprog-fail-then-regen": [
            {"op": "generate", "opts": {"pp_prog": True}, "fault_pick": ["extprog_fail"]},
            {"op": "generate", "opts": {"pp_prog": True}},
        ],
        "mode-spellings-and-special-bits": [
            {"op": "generate", "opts": {"file_mode": 0o644, "file_mode_spelling": "dec"}},
            {"op": "generate", "opts": {"file_mode": 0o2644}},
            {"op": "chmod", "pick": 0, "mode": 0o3444},
            {"op": "generate", "opts": {"file_mode": 0o640, "file_mode_spelling": "hex"}},
            {"op": "generate", "opts": {"file_mode": 0o444, "file_mode_spelling": "dec"}},
        ],
        "crlf-formatter-then-plain": [
            {"op": "generate", "opts": {"pp_prog": "crlf"}},
            {"op": "generate", "opts": {}},
            {"op": "generate", "opts": {"pp_prog": "crlf", "file_mode": 0o644}},
        ],
        "copied-support-header": [
            {"op": "generate", "opts": {"extra_support": "readonly", "file_mode": 0o640}},
            {"op": "generate", "opts": {"extra_support": "readonly", "file_mode": 0o444, "pp_trim": True}},
            {"op": "generate", "opts": {"extra_support": "readonly", "file_mode": 0o600}},
        ],
        "api-dry-run-then-real-into-cleaned-directory": [
            {"op": "api_session", "opts": {"file_mode": 0o444}, "steps": [{"k": "dry"}, {"k": "gen"}, {"k": "wipe"}, {"k": "gen"}, {"k": "list"}, {"k": "wipe"}, {"k": "gen", "omit_ser": True}]},
            {"op": "generate", "opts": {"file_mode": 0o644}},
        ],
        "api-caller-edits-between-calls": [
            {"op": "generate", "opts": {"file_mode": 0o444}},
            {"op": "api_session", "opts": {"file_mode": 0o640}, "steps": [{"k": "gen"}, {"k": "edit", "how": "content", "pick": 0, "content": "edited by the caller\n", "mode": 0o444}, {"k": "edit", "how": "remove", "pick": 3}, {"k": "gen"}, {"k": "edit", "how": "truncate", "pick": 1, "size": 1, "mode": 0o400}, {"k": "gen", "allow_overwrite": False}, {"k": "new_generators"}, {"k": "gen"}]},
        ],
        "api-two-pairs-of-generators-interleaved": [
            {"op": "api_session", "opts": {"file_mode": 0o644}, "steps": [{"k": "gen", "omit_ser": True}, {"k": "gen", "pair": 1}, {"k": "gen", "omit_ser": True}, {"k": "gen", "pair": 1, "omit_ser": True}, {"k": "gen", "pair": 1}, {"k": "gen"}]},
        ],
        "api-no-overwrite-after-wipe": [
            {"op": "api_session", "opts": {}, "steps": [{"k": "gen"}, {"k": "gen", "allow_overwrite": False}, {"k": "wipe"}, {"k": "gen", "allow_overwrite": False}, {"k": "gen", "which": "support"}]},
        ],
        "copied-support-header-with-formatter": [
            {"op": "generate", "opts": {"extra_support": "readonly", "pp_prog": True, "file_mode": 0o644}},
            {"op": "generate", "opts": {"extra_support": "readonly", "pp_prog": "rename", "file_mode": 0o444}},
        ],
        "omit-then-full": [
            {"op": "generate", "opts": {"omit_ser": True}},
            {"op": "generate", "opts": {}},
            {"op": "generate", "opts": {"omit_ser": True, "no_overwrite": True}},
        ],
    }
    for li, lang in enumerate(LANGS):
        for name, script in sorted(scripts.items()):
            if tier == "quick" and lang in ("html",) and name not in ("ro-then-regen", "regen-no-overwrite"):
                continue
            out.append(
                {
                    "label": "directed-%s-%s" % (name, lang),
                    "dsdl_seed": [seed, PROP, "directed", li % 2],
                    "lang": lang,
                    "script": script,
                }
            )
    return out


def gen_case(seed: int, index: int, tier: str) -> dict:
    return {"dsdl_seed": [seed, PROP, "dsdl", index // 3], "ops_seed": [seed, PROP, "ops", index], "tier": tier}


# ---------------------------------------------------------------------------------------------------------------------


def _base_opts(r: Rng, ds: dsdlgen.DsdlSet, lang: typing.Optional[str]) -> dict:
    lang = lang or r.weighted([("c", 4), ("cpp", 4), ("py", 3), ("html", 1)])
    # generate a root whose lookups are the others it needs
    root = r.choice(ds.roots)
    opts = {"lang": lang, "root": root, "lookups": ds.root_deps(root)}
    if r.chance(1, 4):
        opts["lookups"] = [x for x in ds.roots if x != root]
    opts["outdir_spelling"] = r.choice(["abs", "rel", "rel_dot", "abs_slash"])
    # the other root namespaces of the set: a project generates several roots into ONE directory (shared support files)
    opts["alt_roots"] = [[x, ds.root_deps(x)] for x in ds.roots if x != root]
    return opts


def _vary_opts(r: Rng, base: dict, tier: str) -> dict:
    o = dict(base)
    alt = o.pop("alt_roots", None) or []
    if alt and r.chance(1, 4):
        o["root"], o["lookups"] = r.choice(alt)
    lang = o["lang"]
    modes = FILE_MODES if tier == "quick" else FILE_MODES_THOROUGH
    if r.chance(2, 3):
        o["file_mode"] = r.choice(modes)
        if r.chance(1, 3):
            # "interpreted using python auto base detection": 420 is 0o644
            o["file_mode_spelling"] = r.choice(["dec", "hex", "bin"])
    if r.chance(1, 4):
        o["no_overwrite"] = True
    if r.chance(1, 4):
        o["omit_ser"] = True
    gs = r.weighted([(None, 5), ("always", 1), ("never", 1), ("as-needed", 1), ("only", 1)])
    if gs == "always" and o.get("omit_ser"):
        gs = None
    if gs:
        o["gen_support"] = gs
    if r.chance(1, 5):
        o["pp_trim"] = True
    if r.chance(1, 5):
        o["pp_max_empty"] = r.choice([0, 1, 2])
    if r.chance(1, 4):
        o["pp_prog"] = r.choice([True, "rename", "crlf"])  # formatter edits in place / replaces the file by temp + rename / only normalises line endings to CRLF
    if r.chance(1, 6) and lang in ("c", "cpp"):
        o["extra_support"] = r.choice([True, "readonly"])  # the support package ships a plain header that is copied, not rendered
    if r.chance(1, 6) and lang in ("py", "html"):
        o["ns_types"] = True
    if r.chance(1, 8):
        o["ns_stem"] = r.choice(["_ns", "index", "module"])
    if r.chance(1, 10) and lang in ("c", "cpp"):
        o["ext"] = r.choice([".h", ".hh", "hpp", ".inc"])
    if lang == "cpp" and r.chance(1, 4):
        o["std"] = r.choice(["c++14", "c++17", "c++17-pmr", "c++20"])
    return o


def _session_opts(r: Rng, base: dict) -> dict:
    """what an API caller decides when it builds its generators (kept for the whole session)"""
    o = {k: base[k] for k in ("lang", "root", "lookups")}
    if r.chance(2, 3):
        o["file_mode"] = r.choice(FILE_MODES[:6])
    if r.chance(1, 5):
        o["pp_trim"] = True
    if r.chance(1, 5):
        o["pp_max_empty"] = r.choice([0, 1, 2])
    return o


def _session_steps(r: Rng) -> typing.List[dict]:
    steps = []  # type: typing.List[dict]
    for i in range(r.between(2, 6)):
        rs = r.sub(i)
        k = rs.weighted([("gen", 6), ("dry", 2), ("list", 1), ("wipe", 1), ("edit", 3), ("new_generators", 1)])
        st = {"k": k}  # type: typing.Dict[str, typing.Any]
        if k in ("gen", "dry"):
            if rs.chance(1, 4):
                st["allow_overwrite"] = False
            if rs.chance(1, 4):
                st["omit_ser"] = True
            if rs.chance(1, 6):
                st["which"] = rs.choice(["types", "support"])
            if rs.chance(1, 4):
                st["pair"] = 1  # the caller's second pair of generator objects (same tree, same directory)
            if k == "gen" and rs.chance(1, 5):
                st["fault_pick"] = [rs.choice(["oserror", "write_oserror", "refused_chmod"])]  # this call fails half-way; the caller carries on
        elif k == "edit":
            st.update({"how": rs.choice(["content", "content", "chmod", "remove", "truncate"]), "pick": rs.below(1000), "mode": rs.choice([0o644, 0o444, 0o600, 0o400]), "size": rs.choice([0, 1, 50])})
            if st["how"] == "content":
                st["content"] = rs.choice(["", "edited by the caller\n", "y" * 9000])
        steps.append(st)
    if not any(st["k"] == "gen" for st in steps):
        steps.append({"k": "gen"})
    return steps


def _resolve_pick(pick: int, names: typing.List[str]) -> typing.Optional[str]:
    if not names:
        return None
    return names[pick % len(names)]


def run_case(case: dict, ctx: dict) -> dict:
    sandbox = os.path.join(ctx["scratch"], "disk")
    os.makedirs(sandbox)
    # (where the output directory is: nested, with a space and a non-ASCII character in its path now and then)
    out_rel = (case.get("world") or {}).get("out_rel") or Rng(PROP, "out_rel", str(case.get("ops_seed", case.get("label")))).weighted([("out", 3), ("build/gen out", 1), ("o u t-\u00e9/x", 1)])
    world = nnvg.World(sandbox, out_rel=out_rel)
    stats = {}  # type: typing.Dict[str, typing.Any]
    counters = {"ops": {}, "faults_fired": {}, "probes": {}, "status": {}}  # type: typing.Dict[str, typing.Dict[str, int]]

    def bump(group: str, key: str, n: int = 1) -> None:
        counters[group][key] = counters[group].get(key, 0) + n

    # ---- inputs
    if "dsdl" in case:
        roots, files = case["dsdl"]["roots"], case["dsdl"]["files"]
        err = dsdlgen.validate(files, roots, os.path.join(ctx["scratch"], "val"))
        if err is not None:
            return {"violations": [], "evaluations": 0, "skipped": 1, "executed": case, "counters": counters}
        ds = None
    else:
        ds = dsdlgen.generate_valid(tuple(case["dsdl_seed"]), os.path.join(ctx["scratch"], "val"), stats=stats)
        roots, files = ds.roots, ds.files
    dsdlgen.materialize_files(files, roots, world.in_dir)

    tier = case.get("tier", ctx.get("tier", "quick"))
    explicit = "ops" in case
    r = Rng(*case["ops_seed"]) if "ops_seed" in case else Rng(PROP, "directed", case.get("label", ""))
    wr = r.sub("world")
    world_knobs = case.get("world") or {
        "umask": wr.choice([0o022, 0o002, 0o077, 0o027]),
        "buffering": wr.choice([None, None, 1, 16, 512, 8192]),
    }
    world_knobs = dict(world_knobs, out_rel=out_rel)
    if explicit:
        templates = list(case["ops"])
        base = None
    elif "script" in case:
        templates = [dict(t) for t in case["script"]]
        if ds is not None:
            base = _base_opts(r.sub("base"), ds, case.get("lang"))
        else:
            base = {"lang": case.get("lang", "c"), "root": roots[0], "lookups": roots[1:]}
    else:
        assert ds is not None
        base = _base_opts(r.sub("base"), ds, None)
        templates = []
        n_ops = r.between(2, 8 if tier == "thorough" else 6)
        faulty_case = r.chance(1, 2)
        enabled_faults = r.subset(FAULT_KINDS + ["extprog_fail"], 1, 2) or ["crash"]
        for i in range(n_ops):
            ro = r.sub("op", i)
            kind = ro.weighted([("generate", 10), ("chmod", 2), ("plant", 2), ("truncate", 1), ("remove", 1), ("link", 2), ("api_session", 2)]) if i > 0 else ro.weighted([("generate", 8), ("api_session", 1)])
            if kind == "generate":
                t = {"op": "generate", "opts": _vary_opts(ro.sub("opts"), base, tier)}  # type: typing.Dict[str, typing.Any]
                if faulty_case and ro.chance(1, 3):
                    fk = list(enabled_faults)
                    if not t["opts"].get("pp_prog") and "extprog_fail" in fk:
                        fk.remove("extprog_fail")
                    if fk:
                        t["fault_pick"] = fk
                templates.append(t)
            elif kind == "api_session":
                templates.append({"op": "api_session", "opts": _session_opts(ro.sub("sopts"), base), "steps": _session_steps(ro.sub("steps"))})
            elif kind == "chmod":
                templates.append({"op": "chmod", "pick": ro.below(1000), "mode": ro.choice([0o444, 0o400, 0o000, 0o644, 0o222, 0o555, 0o3444, 0o2664])})
            elif kind == "plant":
                t = {"op": "plant", "content": ro.choice(["", "foreign\n", "x" * 5000]), "mode": ro.choice([0o644, 0o444, 0o600, 0o400])}
                if ro.chance(1, 2):
                    t["pick_future"] = ro.below(1000)
                    if ro.chance(1, 3):
                        # a foreign file NEXT TO a generated one, named as scratch and backup files usually are
                        t["suffix"] = ro.choice([".tmp", ".bak", ".orig", "~", ".new", ".swp", ".part", ".lock"])
                else:
                    t["path"] = ro.choice(["foreign_%d.txt" % ro.below(3), "extra/dir/foreign.h"])
                templates.append(t)
            elif kind == "truncate":
                templates.append({"op": "truncate", "pick": ro.below(1000), "size": ro.choice([0, 1, 100])})
            elif kind == "link":
                # an entry of the output directory becomes a symbolic or hard link to a file elsewhere (a build cache,
                # a vendored copy); "keep" = the linked file holds what the entry held, else foreign content
                t = {"op": "link", "style": ro.choice(["sym_outside", "sym_outside_rel", "sym_inside", "hard"]), "content": ro.choice(["keep", "keep", "foreign\n", ""]), "mode": ro.choice([0o644, 0o444, 0o600, 0o640])}
                if ro.chance(1, 3):
                    t["pick_future"] = ro.below(1000)
                else:
                    t["pick"] = ro.below(1000)
                templates.append(t)
            else:
                templates.append({"op": "remove", "pick": ro.below(1000)})

    executed = []  # type: typing.List[dict]
    violations = []  # type: typing.List[dict]
    states = []  # type: typing.List[str]
    ref_cache = {}  # type: typing.Dict[str, dict]
    evaluations = 0
    trace_key = []  # type: typing.List[str]
    regen_over_existing = False
    any_fault = False
    last_ref_files = []  # type: typing.List[str]
    ev_digests = []  # type: typing.List[str]
    out = world.out_dir
    vault = os.path.join(sandbox, "vault")  # files elsewhere on the disk that entries of the output directory link to
    os.makedirs(vault, exist_ok=True)

    def violation(sig: str, detail: dict) -> None:
        detail = dict(detail)
        detail["op_index"] = len(executed)
        violations.append({"signature": "%s:%s" % (PROP, sig), "detail": detail})

    for ti, t in enumerate(templates):
        op = dict(t)
        kind = op["op"]
        pre = snapshot.snapshot(out, with_mtime=False, follow_file_links=True)
        pre.update({"../vault/" + k: v for k, v in snapshot.snapshot(vault, with_mtime=False).items()})
        pre_files = {k: v for k, v in snapshot.files_of(pre).items() if not k.startswith("../vault/")}
        existing = sorted(pre_files)
        if kind == "generate":
            opts = dict(op["opts"])
            if base is not None:
                merged = {k: v for k, v in base.items() if k != "alt_roots"}
                merged.update(opts)
                opts = merged
            op["opts"] = opts
            plan = {"umask": world_knobs["umask"]}  # type: typing.Dict[str, typing.Any]
            ref = nnvg.reference_run(world, opts, ref_cache, **plan)
            evaluations += 1
            if not ref["ok"]:
                bump("ops", "generate-skipped-reference-fails")
                if opts.get("pp_prog"):
                    # documented: the program runs "after each file is generated but before the file is set to
                    # read-only". The (well-behaved) formatter must be able to edit a freshly generated file: if the
                    # same run without it succeeds in the pristine directory, the failure is the generator's.
                    ref2 = nnvg.reference_run(world, {k: v for k, v in opts.items() if k != "pp_prog"}, ref_cache, **plan)
                    evaluations += 1
                    if ref2["ok"]:
                        violation("external-program-cannot-edit-freshly-generated-file:%s" % ref["res"]["status"], {"argv": world.argv(opts)[1:], "exc": ref["res"].get("exc_msg", "")[:300]})
                continue
            last_ref_files = sorted(ref["files"])
            fault = op.get("fault")
            if fault is None and op.get("fault_pick"):
                fault = nnvg.pick_fault(r.sub("fault", ti), ref["res"], op["fault_pick"])
            op.pop("fault_pick", None)
            op["fault"] = fault
            if world_knobs.get("buffering") is not None:
                plan["buffering"] = world_knobs["buffering"]
            if fault is not None:
                plan["fault"] = fault
            inv = world.invocation(opts, **plan)
            res = proc.run_invocation(inv)
            evaluations += 1
            ev_digests.append(nnvg.event_digest(res))
            post = snapshot.snapshot(out, with_mtime=False, follow_file_links=True)
            post.update({"../vault/" + k: v for k, v in snapshot.snapshot(vault, with_mtime=False).items()})
            post_files = {k: v for k, v in snapshot.files_of(post).items() if not k.startswith("../vault/")}
            bump("ops", "generate")
            bump("status", res["status"].split(":")[0] if not res["status"].startswith("exc:") else res["status"])
            for k, v in res.get("probes", {}).items():
                bump("probes", k, v)
            fired = res.get("fault_fired")
            if fired:
                any_fault = True
                bump("faults_fired", fault["kind"] if fault else "?")
                if fault and fault["kind"] == "oserror":
                    bump("faults_fired", "oserror:" + fault.get("errno", ""))
            elif fault is not None:
                bump("faults_fired", "planned-but-not-reached")
            overlap = sorted(set(ref["files"]) & set(pre_files))
            if overlap:
                regen_over_existing = True
                bump("probes", "regenerated_over_existing")
                if any(not (pre_files[p][1] & 0o200) for p in overlap):
                    bump("probes", "regenerated_over_readonly_file")
            if res["status"] == "crash":
                bump("probes", "crash_left_state")
                torn = [p for p in post_files if p in ref["files"] and post_files[p][0] != ref["files"][p][0]]
                if torn:
                    bump("probes", "crash_left_torn_or_stale_file")
            ok = nnvg.succeeded(res)
            want_mode = opts.get("file_mode", 0o444)
            short = {"status": res["status"], "exc": res.get("exc_msg", "")[:300], "argv": inv["argv"][1:], "fault": fault, "fired": fired}
            # (a) --no-overwrite: nothing that existed before may change, and a conflict is an error
            if opts.get("no_overwrite"):
                changed = [p for p in sorted(pre) if post.get(p) != pre[p]]
                if changed:
                    p0 = changed[0]
                    violation(
                        "no-overwrite-modified:%s" % nnvg.sig_kind(p0),
                        dict(short, changed=changed[:5], before=pre[p0][:3], after=(post.get(p0) or ("gone",))[:3]),
                    )
                if overlap and ok:
                    violation("no-overwrite-conflict-not-reported:%s" % nnvg.sig_kind(overlap[0]), dict(short, conflict=overlap[:5]))
                if overlap:
                    bump("probes", "no_overwrite_conflict")
            # (b) a run that reports success leaves exactly the reference bytes and the requested modes
            if ok:
                for p in sorted(ref["files"]):
                    if p not in post_files:
                        violation("success-missing-file:%s" % nnvg.sig_kind(p), dict(short, path=p))
                        break
                    if post_files[p][0] != ref["files"][p][0]:
                        violation("success-wrong-bytes:%s" % nnvg.sig_kind(p), dict(short, path=p, had_before=p in pre_files))
                        break
                    if post_files[p][1] != (want_mode & 0o7777) or ref["files"][p][1] != (want_mode & 0o7777):
                        violation(
                            "success-wrong-mode:%s" % nnvg.sig_kind(p),
                            dict(short, path=p, mode=oct(post_files[p][1]), ref_mode=oct(ref["files"][p][1]), want=oct(want_mode)),
                        )
                        break
            # (c) progress once faults stop
            # (an external post-processor has to *read* the file; over a write-only leftover a real formatter fails
            # for a real unprivileged user too, and nothing in the statement promises otherwise: not asserted there)
            unreadable_for_extprog = bool(opts.get("pp_prog")) and any(not (pre_files[p][1] & 0o400) for p in overlap)
            if fault is None and not opts.get("no_overwrite") and not ok and not unreadable_for_extprog:
                first = overlap[0] if overlap else ""
                violation(
                    "no-progress:%s:%s" % (res["status"], nnvg.sig_kind(first) if first else "clean"),
                    dict(short, pre_modes={p: oct(pre_files[p][1]) for p in overlap[:6]}),
                )
            trace_key.append(
                "g|%s|%s|%s|%s"
                % (
                    ",".join("%s=%s" % (k, opts[k]) for k in sorted(opts) if k not in ("root", "lookups", "outdir_spelling")),
                    (fault or {}).get("kind"),
                    (fault or {}).get("at", (fault or {}).get("file")),
                    res["status"],
                )
            )
        elif kind == "api_session":
            sopts = dict(op["opts"])
            if base is not None:
                for k in ("lang", "root", "lookups"):
                    sopts.setdefault(k, base[k])
            op["opts"] = sopts
            session = dict(sopts, in_dir=world.in_dir, out_dir=out, steps=[dict(st) for st in op["steps"]])

            def run_session(sess: dict) -> dict:
                inv = world.invocation({"lang": sopts["lang"], "root": sopts["root"], "lookups": sopts.get("lookups", [])}, umask=world_knobs["umask"])
                inv["entry"], inv["session"], inv["argv"] = "api_session", sess, ["api-session"]
                return proc.run_invocation(inv)

            def session_reference(step: dict) -> typing.Optional[typing.Dict[str, typing.Tuple[str, int]]]:
                """what the same call on fresh generator objects writes into an empty directory at the same path"""
                nonlocal evaluations
                key = "session|" + repr((sorted((k, str(v)) for k, v in sopts.items()), bool(step.get("omit_ser")), step.get("which", "both"), world_knobs["umask"]))
                if key not in ref_cache:
                    aside = out + ".aside"
                    had = os.path.lexists(out)
                    if had:
                        os.rename(out, aside)
                    try:
                        rres = run_session(dict(session, steps=[{"k": "gen", "omit_ser": bool(step.get("omit_ser")), "which": step.get("which", "both")}]))
                        evaluations += 1
                        recs = rres.get("session") or []
                        okr = nnvg.succeeded(rres) and recs and recs[0]["status"] == "ok"
                        ref_cache[key] = {"files": {k: (v[4], v[2], v[5] if len(v) > 5 else None) for k, v in recs[0]["after"].items() if v[0] == "f"}, "counts": {"mut_count": recs[0].get("mut_count", 0), "writes_per_file": recs[0].get("writes_per_file", [])}} if okr else {"files": None}
                    finally:
                        if os.path.lexists(out):
                            nnvg._force_rmtree(out)  # pylint: disable=protected-access
                        if had:
                            os.rename(aside, out)
                return ref_cache[key]["files"]

            for sj, st in enumerate(session["steps"]):
                if st.get("fault_pick"):
                    kinds = st.pop("fault_pick")
                    op["steps"][sj].pop("fault_pick", None)
                    if session_reference(st) is not None:
                        key = "session|" + repr((sorted((k, str(v)) for k, v in sopts.items()), bool(st.get("omit_ser")), st.get("which", "both"), world_knobs["umask"]))
                        st["fault"] = nnvg.pick_fault(r.sub("sfault", ti, sj), ref_cache[key]["counts"], kinds)
                    op["steps"][sj]["fault"] = st.get("fault")
            res = run_session(session)
            evaluations += 1
            ev_digests.append(nnvg.event_digest(res))
            bump("ops", "api_session")
            bump("status", "session:" + res["status"].split(":")[0])
            if not nnvg.succeeded(res):
                # (the session as a whole only fails if building the tree or the generators fails: nothing to judge)
                bump("ops", "api_session-not-started:" + res["status"])
                executed.append(op)
                continue
            want_mode = sopts.get("file_mode")
            for rec in res.get("session") or []:
                trace_key.append("s|%s|%s|%s|%s" % (rec["k"], rec.get("status"), op["steps"][rec["i"]].get("allow_overwrite", True), op["steps"][rec["i"]].get("which", "both")))
                if rec["k"] != "gen":
                    bump("probes", "api_step_" + rec["k"])
                    continue
                step = op["steps"][rec["i"]]
                ref_files = session_reference(step)
                if ref_files is None:
                    bump("ops", "api-step-skipped-reference-fails")
                    continue
                before_f = {k: (v[4], v[2]) for k, v in rec["before"].items() if v[0] == "f"}
                after_f = {k: (v[4], v[2], v[5] if len(v) > 5 else None) for k, v in rec["after"].items() if v[0] == "f"}
                overlap = sorted(set(ref_files) & set(before_f))
                ok = rec["status"] == "ok"
                short = {"entry": "api", "session": sopts, "step_index": rec["i"], "step": step, "status": rec["status"], "exc": rec.get("exc_msg", ""), "steps": op["steps"][: rec["i"] + 1]}
                if overlap:
                    regen_over_existing = True
                    bump("probes", "api_regenerated_over_existing")
                if rec["i"] > 0:
                    bump("probes", "api_generate_all_again_on_used_generator_objects")
                if rec.get("fault_fired"):
                    any_fault = True
                    bump("faults_fired", "api:" + (step.get("fault") or {}).get("kind", "?"))
                    if not ok:
                        # an injected error may make THIS call fail (what it had already written stays judged by the next
                        # call); a call that reports success although it was hit is held to the full oracle below
                        if not step.get("allow_overwrite", True):
                            changed = [p for p in sorted(rec["before"]) if rec["after"].get(p) != rec["before"][p]]
                            if changed:
                                violation("no-overwrite-modified:%s" % nnvg.sig_kind(changed[0]), dict(short, changed=changed[:5]))
                        bump("probes", "api_call_aborted_by_injected_error")
                        continue
                if any(r2.get("fault_fired") and r2.get("status") != "ok" for r2 in (res.get("session") or [])[: rec["i"]] if r2.get("k") == "gen"):
                    bump("probes", "api_call_after_aborted_call_on_same_objects")
                if not step.get("allow_overwrite", True):
                    changed = [p for p in sorted(rec["before"]) if rec["after"].get(p) != rec["before"][p]]
                    if changed:
                        violation("no-overwrite-modified:%s" % nnvg.sig_kind(changed[0]), dict(short, changed=changed[:5]))
                    if overlap and ok:
                        violation("no-overwrite-conflict-not-reported:%s" % nnvg.sig_kind(overlap[0]), dict(short, conflict=overlap[:5]))
                    if overlap:
                        bump("probes", "no_overwrite_conflict")
                    if not overlap and not ok:
                        violation("no-progress:%s:clean" % rec["status"], short)
                    if not ok:
                        continue
                elif not ok:
                    first = overlap[0] if overlap else ""
                    violation("no-progress:%s:%s" % (rec["status"], nnvg.sig_kind(first) if first else "clean"), dict(short, pre_modes={p: oct(before_f[p][1]) for p in overlap[:6]}))
                    continue
                for p in sorted(ref_files):
                    if p not in after_f:
                        violation("success-missing-file:%s" % nnvg.sig_kind(p), dict(short, path=p))
                        break
                    if after_f[p][0] != ref_files[p][0]:
                        if after_f[p][2] is not None and after_f[p][2] == ref_files[p][2]:
                            # the whole difference is inside _MODEL_ and vanishes once pydsdl's memoization caches are dropped
                            violation("success-wrong-bytes:%s:py-model-pickles-pydsdl-memoization-caches" % nnvg.sig_kind(p), dict(short, path=p, had_before=p in before_f))
                            continue
                        violation("success-wrong-bytes:%s" % nnvg.sig_kind(p), dict(short, path=p, had_before=p in before_f))
                        break
                    if want_mode is not None and (after_f[p][1] != (want_mode & 0o7777) or ref_files[p][1] != (want_mode & 0o7777)):
                        violation("success-wrong-mode:%s" % nnvg.sig_kind(p), dict(short, path=p, mode=oct(after_f[p][1]), ref_mode=oct(ref_files[p][1]), want=oct(want_mode)))
                        break
        else:
            path = op.get("path")
            if path is None:
                if "pick_future" in op:
                    # a path some generate of this case produces (seen so far), else a path that exists
                    if not last_ref_files and base is not None:
                        ref = nnvg.reference_run(world, {k: v for k, v in base.items() if k != "alt_roots"}, ref_cache, umask=world_knobs["umask"])
                        evaluations += 1
                        last_ref_files = sorted(ref["files"]) if ref["ok"] else []
                    pool = last_ref_files or existing
                    path = _resolve_pick(op.pop("pick_future"), pool)
                    if path is not None and op.get("suffix"):
                        path = path + op.pop("suffix")
                else:
                    path = _resolve_pick(op.pop("pick"), existing)
            op.pop("pick", None)
            op.pop("pick_future", None)
            if path is None:
                continue
            op["path"] = path
            p = os.path.join(out, path)
            # never put a file where a directory of the tree is, never a directory where a file is
            if kind == "plant":
                if os.path.isdir(p) or any(os.path.isfile(os.path.join(out, *path.split("/")[:i])) for i in range(1, len(path.split("/")))):
                    continue
                os.makedirs(os.path.dirname(p), exist_ok=True)
                if os.path.lexists(p):
                    os.chmod(p, 0o644)
                with open(p, "w", encoding="utf-8") as f:
                    f.write(op["content"])
                os.chmod(p, op["mode"])
            elif kind == "link":
                if os.path.isdir(p) or any(os.path.isfile(os.path.join(out, *path.split("/")[:i])) for i in range(1, len(path.split("/")))):
                    continue
                os.makedirs(os.path.dirname(p), exist_ok=True)
                content = op["content"]
                if content == "keep":
                    content = open(p, "r", encoding="utf-8", newline="").read() if os.path.isfile(p) else "kept-nothing\n"
                if os.path.lexists(p):
                    os.remove(p)
                n_links = len(os.listdir(vault))
                if op["style"] == "sym_inside":
                    target = os.path.join(out, "_linked", "f%d%s" % (n_links, os.path.splitext(p)[1]))
                    os.makedirs(os.path.dirname(target), exist_ok=True)
                    open(os.path.join(vault, "marker%d" % n_links), "w").close()
                else:
                    target = os.path.join(vault, "f%d%s" % (n_links, os.path.splitext(p)[1]))
                with open(target, "w", encoding="utf-8", newline="") as f:
                    f.write(content)
                os.chmod(target, op["mode"])
                if op["style"] == "hard":
                    os.link(target, p)
                elif op["style"] == "sym_outside_rel" or op["style"] == "sym_inside":
                    os.symlink(os.path.relpath(target, os.path.dirname(p)), p)
                else:
                    os.symlink(target, p)
            elif not os.path.isfile(p):
                continue
            elif kind == "chmod":
                os.chmod(p, op["mode"])
            elif kind == "truncate":
                os.chmod(p, os.stat(p).st_mode | 0o200)
                os.truncate(p, min(op["size"], os.path.getsize(p)))
            elif kind == "remove":
                os.remove(p)
            bump("ops", kind)
            trace_key.append("%s|%s|%s" % (kind, nnvg.sig_kind(path), op.get("mode", op.get("size", ""))))
        executed.append(op)
        states.append(snapshot.digest(snapshot.snapshot(out, with_mtime=False)))
        if kind == "link":
            bump("probes", "entry_replaced_by_%s_link" % ("hard" if op["style"] == "hard" else "symbolic"))

    exec_case = {
        "label": case.get("label"),
        "hash_seed": case.get("hash_seed", 0),
        "dsdl": {"roots": list(roots), "files": dict(files)},
        "world": world_knobs,
        "ops": executed,
        "tier": tier,
    }
    nontrivial = []
    if regen_over_existing or any_fault:
        nontrivial.append(hashlib.sha256("\n".join(trace_key).encode()).hexdigest()[:16])
    digest = hashlib.sha256(("\n".join(trace_key) + "|" + "|".join(ev_digests) + "|" + "|".join(sorted(v["signature"] for v in violations))).encode()).hexdigest()[:16]
    sample = {"ops": [_brief(o) for o in executed], "world": world_knobs, "n_dsdl_files": len(files)}
    counters["dsdl"] = {k: v for k, v in stats.items() if isinstance(v, int)}
    return {
        "violations": violations,
        "executed": exec_case,
        "evaluations": evaluations,
        "nontrivial_keys": nontrivial,
        "states": states,
        "counters": counters,
        "sim_time_s": 0.0,
        "sample": sample,
        "digest": digest,
    }


def _brief(op: dict) -> dict:
    o = dict(op)
    if "content" in o:
        o["content"] = o["content"][:12]
    return o


# ---------------------------------------------------------------------------------------------------------------------


def reductions(case: dict) -> typing.Iterator[dict]:
    """Candidates for the minimiser, most aggressive first. ``case`` is explicit (has 'ops' and 'dsdl')."""
    ops = case["ops"]
    # drop one operation (later ones first: the violating op is usually last, so earlier ones are tried after)
    for i in range(len(ops)):
        if len(ops) > 1:
            c = dict(case)
            c["ops"] = ops[:i] + ops[i + 1 :]
            yield c
    # drop a step of an API session
    for i, op in enumerate(ops):
        if op["op"] == "api_session" and len(op["steps"]) > 1:
            for j in range(len(op["steps"])):
                c = dict(case)
                c["ops"] = [dict(o) for o in ops]
                c["ops"][i]["steps"] = op["steps"][:j] + op["steps"][j + 1 :]
                yield c
    # drop a fault
    for i, op in enumerate(ops):
        if op.get("fault"):
            c = dict(case)
            c["ops"] = [dict(o) for o in ops]
            c["ops"][i]["fault"] = None
            yield c
    # drop optional flags
    for i, op in enumerate(ops):
        if op["op"] not in ("generate", "api_session"):
            continue
        for k in sorted(op["opts"]):
            if k in ("lang", "root", "lookups"):
                continue
            c = dict(case)
            c["ops"] = [dict(o) for o in ops]
            c["ops"][i]["opts"] = {kk: vv for kk, vv in op["opts"].items() if kk != k}
            yield c
    # neutral world knobs
    if case.get("world", {}).get("buffering") is not None or case.get("world", {}).get("umask") != 0o022:
        c = dict(case)
        c["world"] = {"umask": 0o022, "buffering": None, "out_rel": case.get("world", {}).get("out_rel", "out")}
        yield c
    # drop DSDL files nobody refers to
    yield from nnvg.reduce_dsdl(case)
