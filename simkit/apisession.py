"""
An API caller as one simulated process (C12): ONE pair of generator objects (or a fresh pair now and then) used for
several generate_all() calls against one output directory, with the caller looking at and editing the directory in
between (dry runs, listing the templates, wiping the directory, editing or removing generated files).

Runs inside the fork()ed child of proc.run_invocation (entry "api_session") under the same seams as an nnvg run (permission
model, recorder). Every step reports the state of the output directory before and after, taken with the seams switched off.
"""
import os
import shutil
import typing

from . import pymodel, snapshot


def _snap(seams: typing.Any, out_dir: str) -> typing.Dict[str, list]:
    was = seams.enabled
    seams.enabled = False
    try:
        snap = {k: list(v) for k, v in snapshot.snapshot(out_dir, with_mtime=False, follow_file_links=True).items()}
        for rel, v in snap.items():
            if v[0] == "f" and rel.endswith(".py"):
                # (a sixth field: the digest with the pickled pydsdl caches dropped - see simkit/pymodel.py)
                with open(os.path.join(out_dir, rel), "rb") as f:
                    v.append(pymodel.sha_without_memoization_caches(f.read()))
        return snap
    finally:
        seams.enabled = was


def _make_generators(session: dict, ns: typing.Any) -> typing.Tuple[typing.Any, typing.Any]:
    from nunavut._generators import create_default_generators
    from nunavut._postprocessors import LimitEmptyLines, SetFileMode, TrimTrailingWhitespace

    pps = []  # type: typing.List[typing.Any]
    if session.get("pp_trim"):
        pps.append(TrimTrailingWhitespace())
    if session.get("pp_max_empty") is not None:
        pps.append(LimitEmptyLines(session["pp_max_empty"]))
    if session.get("file_mode") is not None:
        pps.append(SetFileMode(session["file_mode"]))
    return create_default_generators(ns, post_processors=pps)


def run(session: dict, seams: typing.Any) -> typing.List[dict]:
    import pydsdl
    from nunavut import build_namespace_tree
    from nunavut.lang import LanguageContextBuilder

    in_dir, out_dir = session["in_dir"], session["out_dir"]
    root_dir = os.path.join(in_dir, session["root"])
    lookups = [os.path.join(in_dir, x) for x in session.get("lookups", [])]
    lctx = LanguageContextBuilder(include_experimental_languages=True).set_target_language(session["lang"]).create()
    types = pydsdl.read_namespace(root_dir, lookups, allow_unregulated_fixed_port_id=True)
    ns = build_namespace_tree(types, root_dir, out_dir, lctx)
    # two pairs of generator objects over the same tree may be alive at once (a caller that keeps one pair per option set);
    # a step names the pair it uses (default: the first)
    pairs = [_make_generators(session, ns), _make_generators(session, ns)]
    results = []  # type: typing.List[dict]
    for si, step in enumerate(session["steps"]):
        k = step["k"]
        rec = {"k": k, "i": si}  # type: typing.Dict[str, typing.Any]
        pi = int(step.get("pair", 0)) % 2
        gen, sgen = pairs[pi]
        if k in ("gen", "dry"):
            rec["before"] = _snap(seams, out_dir)
            dry = k == "dry"
            allow = bool(step.get("allow_overwrite", True))
            omit = bool(step.get("omit_ser", False))
            # one fault per call at most, placed by the scheduler relative to THIS call (counters restart with the call)
            seams.fault = step.get("fault") if not dry else None
            seams.fault_fired = None
            seams.mut_count = 0
            seams.wopen_count = 0
            seams.writes_per_file = {}
            seams.kind_counts = {}
            try:
                which = step.get("which", "both")
                if which in ("both", "support"):
                    sgen.generate_all(dry, allow, omit, False)
                if which in ("both", "types"):
                    gen.generate_all(dry, allow, omit, False)
                rec["status"] = "ok"
            except Exception as ex:  # pylint: disable=broad-except
                rec["status"] = "exc:%s" % type(ex).__name__
                rec["exc_msg"] = str(ex)[:300]
            rec["fault_fired"] = seams.fault_fired
            rec["mut_count"] = seams.mut_count
            rec["writes_per_file"] = [seams.writes_per_file.get(i, 0) for i in range(seams.wopen_count)]
            seams.fault = None
            rec["after"] = _snap(seams, out_dir)
        elif k == "list":
            try:
                rec["n"] = len(list(sgen.get_templates())) + len(list(gen.get_templates()))
                rec["status"] = "ok"
            except Exception as ex:  # pylint: disable=broad-except
                rec["status"] = "exc:%s" % type(ex).__name__
        elif k == "new_generators":
            pairs[pi] = _make_generators(session, ns)
            rec["status"] = "ok"
        else:
            was = seams.enabled
            seams.enabled = False
            try:
                if k == "wipe":
                    for d, dirs, _files in os.walk(out_dir):
                        for n in dirs:
                            os.chmod(os.path.join(d, n), 0o755)
                    shutil.rmtree(out_dir, ignore_errors=True)
                elif k == "edit":
                    existing = sorted(kk for kk, v in snapshot.snapshot(out_dir, with_mtime=False).items() if v[0] == "f")
                    if existing:
                        rel = existing[step["pick"] % len(existing)]
                        p = os.path.join(out_dir, rel)
                        rec["path"] = rel
                        how = step["how"]
                        if how == "remove":
                            os.remove(p)
                        elif how == "chmod":
                            os.chmod(p, step["mode"])
                        else:
                            os.chmod(p, os.stat(p).st_mode | 0o200)
                            if how == "truncate":
                                os.truncate(p, min(step.get("size", 0), os.path.getsize(p)))
                            else:
                                with open(p, "w", encoding="utf-8") as f:
                                    f.write(step.get("content", "edited by the caller\n"))
                            os.chmod(p, step.get("mode", 0o644))
                rec["status"] = "ok"
            finally:
                seams.enabled = was
        results.append(rec)
    return results
