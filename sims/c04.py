"""
C04 - generated C/C++ codecs are memory-safe, total and free of prior-state influence (DESIGN section 2, C04).

The code nunavut generates for a seeded type set is compiled with clang ASan+UBSan(+LSan) into a generic harness
that interprets a scheduler-written op script over persistent destination objects and exactly-sized heap buffers.
Buffers come from a valid-encoding generator (pydsdl.serialize of a seeded value tree: an input generator only,
never an oracle) and then suffer the faults a transport produces.
"""
import hashlib
import json
import os
import re
import shutil
import struct
import subprocess
import typing

from simkit import dsdlgen, nnvg, proc
from simkit.rng import Rng

PROP = "C04"
LEVEL = "fault_enumeration"
MINIMISE_RUNS = 48
RULE = (
    "A case is one (seeded DSDL type set, language configuration) build - C11, C++14 built-in variant, C++17 std::variant, "
    "c++17-pmr, c++20, C with serialization asserts, C for little-endian targets, C with the variable-array capacity override "
    "and seeded -D capacities; thorough adds two more C++ variants - and one op script of 1500 (quick) / 12000 (thorough) operations over 4 persistent slots per type: DES "
    "(buffers: valid encodings truncated at a byte, extended with garbage, bit-flipped, zero-filled, with corrupted "
    "prefix bytes, spliced, empty, NULL, fully random), SER with capacities 0..max+1 into exact-size allocations, "
    "INIT, POISON (C: memset before a decode; C++: overwrite by copy/move/reconstruct/self-assign/swap), CORRUPT (array "
    "count above capacity, union tag out of range) followed by SER, SCRIBBLE (one scalar leaf - never a bool - set to all-ones, "
    "INT_MIN, INT_MAX, +-inf, NaN, a huge finite float, a subnormal or arbitrary bytes) followed by SER. Distinct = digest of (type-set digest, configuration, "
    "op-kind and fault-kind histogram); non-trivial = the harness ran at least one decode into a used, failed or corrupted "
    "slot and one serialisation into an undersized buffer."
)
STATE_MEASURE = "distinct (configuration, slot-prior-state x op kind x outcome) combinations reached, as counted by the harness"
COMPONENTS = {
    "real": ["nunavut CLI and the C / C++ templates and support headers under test", "clang 14 -O1 with AddressSanitizer, UndefinedBehaviorSanitizer, LeakSanitizer", "libstdc++ (std::vector, std::variant, std::pmr)", "pydsdl.serialize as valid-encoding generator"],
    "stub": ["memory as seen by the generated code: exactly-sized heap buffers, poisoned / reused / corrupted destination objects", "the op script (scheduler-written call history)", "transport faults on buffers", "bounded heap while a C++ decode runs (sanitizer allocation hook: no single allocation above 64 x extent + 64 KiB of the type being decoded)"],
}  # fmt: skip
ASSUMPTIONS = [
    "a C object whose last decode failed or that was poisoned is indeterminate and is never serialised before it is decoded into or initialised; a C++ object is always live and must stay destructible, copyable and serialisable-or-error",
    "that an undersized buffer must be refused is C05's clause (not claimed) and is legitimately relaxed by the capacity override; here SER only must stay inside [buf, buf+cap) and report size <= cap",
    "type sets that fail to generate or compile are skipped and counted (that is C06's subject)",
    "cetl++14-17 cannot be built offline (empty CETL submodule): generated but not run",
    "allocator faults are outside the property's quantifier; not injected - but an allocation sized by an unvalidated wire length (far above anything the type can hold) is reported: on a bounded heap it ends in std::bad_alloc, which is not a documented error code",
]

CONFIGS = [
    {"name": "c", "lang": "c", "std": "c11"},
    {"name": "cpp-c++14", "lang": "cpp", "std": "c++14"},
    {"name": "cpp-c++17", "lang": "cpp", "std": "c++17"},
    {"name": "cpp-c++17-pmr", "lang": "cpp", "std": "c++17-pmr"},
    {"name": "cpp-c++20", "lang": "cpp", "std": "c++20"},
]
# the C variants are cheap to build (0.6 s) and are part of the quick tier too
CONFIGS += [
    {"name": "c-asserts", "lang": "c", "std": "c11", "asserts": True},
    {"name": "c-little", "lang": "c", "std": "c11", "endianness": "little"},
    {"name": "c-override", "lang": "c", "std": "c11", "override_varlen": True},
]
# C++ with the documented "disable serialization buffer checks" knob of the capacity-override option actually used: every
# type's up-front buffer check is compiled out (-D<T>_DISABLE_SERIALIZATION_BUFFER_CHECK_), so only the bounds-aware bitspan
# stands between an undersized span and the memory behind it
CPP_NOBUFCHECK = {"name": "cpp-c++17-nobufcheck", "lang": "cpp", "std": "c++17", "override_varlen": True, "disable_bufcheck": True}
CONFIGS_THOROUGH = CONFIGS + [
    CPP_NOBUFCHECK,
    {"name": "cpp-c++17-little", "lang": "cpp", "std": "c++17", "endianness": "little"},
    {"name": "cpp-c++14-asserts", "lang": "cpp", "std": "c++14", "asserts": True},
]
HERE = os.path.dirname(os.path.abspath(__file__))
PROFILE = dict(docs=False, weird_names=False, max_roots=1, min_types=3, max_types=7, max_array=5, max_fields=6, services=True, multi_version=False)


def n_cases(tier: str) -> int:
    return 240 if tier == "quick" else 2700


def budget_s(tier: str) -> float:
    return 170.0 if tier == "quick" else 1500.0


def case_timeout_s(tier: str) -> float:
    return 420.0


DIRECTED_DSDL = {
    "roots": ["reg"],
    "files": {
        "reg/sub/Inner.1.0.dsdl": "uint8[<=3] data\nbool flag\n@sealed\n",
        "reg/U.1.0.dsdl": "@union\nuint8 a\nreg.sub.Inner.1.0[<=2] b\nfloat32[2] c\nuint16[<=4] d\n@extent 64 * 8\n",
        "reg/V.1.0.dsdl": "bool[<=9] bits\nreg.U.1.0[<=2] us\nint7 small\nfloat16 h\nvoid3\nuint64[<=2] big\n@sealed\n",
        "reg/S.1.0.dsdl": "uint8 x\nreg.V.1.0 v\n@extent 200 * 8\n---\nreg.U.1.0 u\nuint8[<=5] tail\n@sealed\n",
        "reg/X.1.0.dsdl": "@union\nuint8[<=4] arr\nreg.sub.Inner.1.0 comp\nuint8 prim\n@sealed\n",
        "reg/Y.1.0.dsdl": "reg.X.1.0 first\nreg.X.1.0[<=2] xs\nuint8 z\n@sealed\n",
        "reg/Flags.1.0.dsdl": "uint8 head\nbool[<=200] flags\n@sealed\n",
        "reg/Bits.1.0.dsdl": "uint3[<=70] trits\nreg.Flags.1.0[<=2] fl\nbool[<=64] tail\n@sealed\n",
        "reg/Edge.1.0.dsdl": "uint8[<=200] a\n@sealed\n",
        "reg/Edge2.1.0.dsdl": "uint8[<=128] c\nuint16[<=254] d\n@sealed\n",
        "reg/Edge3.1.0.dsdl": "int8[<=255] e\nuint8[<=256] f\nbool[<=130] g\n@sealed\n",
        "reg/W.1.0.dsdl": "@union\nuint8 prim\nuint8[<=4] arr\nreg.sub.Inner.1.0 comp\nuint16 prim2\nreg.sub.Inner.1.0[<=3] comps\n@sealed\n",
    },
}


# arrays whose length prefix is 16 and 32 bits wide (the wire can announce 65535 / 4294967295 elements)
DIRECTED_BIG_DSDL = {
    "roots": ["big"],
    "files": {
        "big/Wide.1.0.dsdl": "uint64[<=300] wide\nuint8 tail\n@sealed\n",
        "big/Blob.1.0.dsdl": "uint8 head\nuint8[<=70000] blob\n@sealed\n",
        "big/Nest.1.0.dsdl": "big.Wide.1.0[<=2] ws\nfloat32[<=260] fs\n@extent 8000 * 8\n",
    },
}


def directed_cases(seed: int, tier: str) -> typing.List[dict]:
    out = []
    for cfg in CONFIGS if tier == "quick" else CONFIGS_THOROUGH:
        out.append({"label": "directed-%s" % cfg["name"], "dsdl": DIRECTED_DSDL, "config": cfg, "ops_seed": [seed, PROP, "directed", cfg["name"]]})
    out.append({"label": "directed-cpp-nobufcheck", "dsdl": DIRECTED_DSDL, "config": CPP_NOBUFCHECK, "ops_seed": [seed, PROP, "directed", "cpp-nobufcheck"]})
    out.append({"label": "directed-c-override-all-one", "dsdl": DIRECTED_DSDL, "config": [c for c in CONFIGS if c["name"] == "c-override"][0], "ops_seed": [seed, PROP, "directed", "c-override-all-one"], "defs_policy": "all-one"})
    for cfg in CONFIGS if tier == "quick" else CONFIGS_THOROUGH:
        if cfg["name"] in ("c", "cpp-c++14", "cpp-c++17", "cpp-c++17-pmr") or tier != "quick":
            out.append({"label": "directed-big-%s" % cfg["name"], "dsdl": DIRECTED_BIG_DSDL, "config": cfg, "ops_seed": [seed, PROP, "directed-big", cfg["name"]], "n_ops": 300})
    return out


def gen_case(seed: int, index: int, tier: str) -> dict:
    cfgs = CONFIGS if tier == "quick" else CONFIGS_THOROUGH
    return {"dsdl_seed": [seed, PROP, "dsdl", index // len(cfgs)], "config": cfgs[index % len(cfgs)], "ops_seed": [seed, PROP, "ops", index], "tier": tier}


# ---------------------------------------------------------------------------------------------------------------------
# type table


OWNER = {}  # type: typing.Dict[int, typing.Any]


def harness_types(in_dir: str, roots: typing.List[str]) -> typing.List[typing.Any]:
    import pydsdl

    out = []
    for root in roots:
        types = pydsdl.read_namespace(os.path.join(in_dir, root), [os.path.join(in_dir, x) for x in roots if x != root], allow_unregulated_fixed_port_id=True)
        for t in sorted(types, key=lambda x: (x.full_name, x.version.major, x.version.minor)):
            if isinstance(t, pydsdl.ServiceType):
                out += [t.request_type, t.response_type]
                OWNER[id(t.request_type)] = t
                OWNER[id(t.response_type)] = t
            else:
                out.append(t)
    return out


def _inner(t: typing.Any) -> typing.Any:
    import pydsdl

    return t.inner_type if isinstance(t, pydsdl.DelimitedType) else t


def _scalar_leaf(pydsdl: typing.Any, dt: typing.Any) -> bool:
    return isinstance(dt, pydsdl.PrimitiveType) and not isinstance(dt, pydsdl.BooleanType)


def _c_scribble_cases(pydsdl: typing.Any, lc: typing.Any, lang: typing.Any, inner: typing.Any, prefix: str = "o->", depth: int = 0) -> typing.List[str]:
    """C statements that give one scalar leaf (never a bool) of the object an extreme / arbitrary bit pattern."""
    out = []  # type: typing.List[str]
    is_union = isinstance(inner, pydsdl.UnionType)
    fields = list(inner.fields) if is_union else list(inner.fields_except_padding)
    for k, f in enumerate(fields):
        ref = prefix + lc.filter_id(lang, f.name)
        sel = "%s_tag_ = %dU; " % (prefix, k) if is_union else ""
        dt = f.data_type
        if _scalar_leaf(pydsdl, dt):
            out.append("%sscrib(&%s, sizeof(%s), value);" % (sel, ref, ref))
        elif isinstance(dt, pydsdl.FixedLengthArrayType) and _scalar_leaf(pydsdl, dt.element_type):
            out.append("%sscrib(&%s[value %% %dU], sizeof(%s[0]), value >> 3);" % (sel, ref, dt.capacity, ref))
        elif isinstance(dt, pydsdl.VariableLengthArrayType) and _scalar_leaf(pydsdl, dt.element_type) and dt.capacity > 0:
            # (the element array may be smaller than the DSDL capacity: the capacity-override build)
            out.append("%sif (%s.count == 0U || %s.count > sizeof(%s.elements) / sizeof(%s.elements[0])) { %s.count = 1U; } scrib(&%s.elements[value %% %s.count], sizeof(%s.elements[0]), value >> 3);" % (sel, ref, ref, ref, ref, ref, ref, ref, ref))
        elif isinstance(dt, pydsdl.CompositeType) and depth < 1 and not is_union:
            sub = _inner(dt)
            if isinstance(sub, pydsdl.StructureType):
                out += _c_scribble_cases(pydsdl, lc, lang, sub, ref + ".", depth + 1)
    return out


def _cpp_scribble_cases(pydsdl: typing.Any, lcpp: typing.Any, lang: typing.Any, inner: typing.Any, prefix: str = "o->", depth: int = 0) -> typing.List[str]:
    out = []  # type: typing.List[str]
    is_union = isinstance(inner, pydsdl.UnionType)
    fields = list(inner.fields) if is_union else list(inner.fields_except_padding)
    for f in fields:
        fid = lcpp.filter_id(lang, f.name)
        ref = "%sset_%s()" % (prefix, fid) if is_union else prefix + fid
        dt = f.data_type
        if _scalar_leaf(pydsdl, dt):
            out.append("auto& v = %s; scrib(&v, sizeof(v), value);" % ref)
        elif isinstance(dt, pydsdl.FixedLengthArrayType) and _scalar_leaf(pydsdl, dt.element_type):
            out.append("auto& v = %s; scrib(&v[value %% %dU], sizeof(v[0]), value >> 3);" % (ref, dt.capacity))
        elif isinstance(dt, pydsdl.VariableLengthArrayType) and _scalar_leaf(pydsdl, dt.element_type) and dt.capacity > 0:
            out.append("auto& v = %s; if (v.size() == 0U || v.size() > %dU) { v.resize(1U); } scrib(&v[value %% v.size()], sizeof(v[0]), value >> 3);" % (ref, dt.capacity))
        elif isinstance(dt, pydsdl.CompositeType) and depth < 1 and not is_union:
            sub = _inner(dt)
            if isinstance(sub, pydsdl.StructureType):
                out += _cpp_scribble_cases(pydsdl, lcpp, lang, sub, ref + ".", depth + 1)
    return out


def write_c_table(path: str, types: list, cfg: dict) -> None:
    import pydsdl
    import nunavut.lang.c as lc
    from nunavut.lang import LanguageContextBuilder

    lang = LanguageContextBuilder().set_target_language("c").create().get_target_language()
    lines = []
    headers = []
    for t in types:
        parent = OWNER.get(id(t), t)
        hdr = "/".join([lc.filter_id(lang, c, "path") for c in parent.name_components[:-1]] + ["%s_%d_%d.h" % (parent.short_name, parent.version.major, parent.version.minor)])
        if hdr not in headers:
            headers.append(hdr)
    for h in headers:
        lines.append('#include "%s"' % h)
    rows = []
    for i, t in enumerate(types):
        name = lc.filter_full_reference_name(lang, t)
        inner = _inner(t)
        cases = []
        if isinstance(inner, pydsdl.UnionType):
            cases.append("o->_tag_ = (uint8_t) (%s_UNION_OPTION_COUNT_ + (value %% 100u));" % name)
            for k, f in enumerate(inner.fields):
                if isinstance(f.data_type, pydsdl.VariableLengthArrayType):
                    # select the array alternative, then give it a count above its capacity
                    cases.append("o->_tag_ = %dU; o->%s.count = (size_t) %dU + 1U + (value %% 1000u);" % (k, lc.filter_id(lang, f.name), f.data_type.capacity))
        else:
            for f in inner.fields_except_padding:
                if isinstance(f.data_type, pydsdl.VariableLengthArrayType):
                    cases.append("o->%s.count = (size_t) %dU + 1U + (value %% 1000u);" % (lc.filter_id(lang, f.name), f.data_type.capacity))
                sub = _inner(f.data_type) if isinstance(f.data_type, pydsdl.CompositeType) else None
                if isinstance(sub, pydsdl.StructureType):
                    for g in sub.fields_except_padding:
                        if isinstance(g.data_type, pydsdl.VariableLengthArrayType):
                            cases.append("o->%s.%s.count = (size_t) %dU + 1U + (value %% 1000u);" % (lc.filter_id(lang, f.name), lc.filter_id(lang, g.name), g.data_type.capacity))
                elif isinstance(sub, pydsdl.UnionType):
                    cases.append("o->%s._tag_ = (uint8_t) (200u + (value %% 50u));" % lc.filter_id(lang, f.name))
        scribs = _c_scribble_cases(pydsdl, lc, lang, inner)
        lines.append("static int ser_%d(const void* o, uint8_t* b, size_t* s) { return %s_serialize_((const %s*) o, b, s); }" % (i, name, name))
        lines.append("static int des_%d(void* o, const uint8_t* b, size_t* s) { return %s_deserialize_((%s*) o, b, s); }" % (i, name, name))
        lines.append("static void init_%d(void* o) { %s_initialize_((%s*) o); }" % (i, name, name))
        lines.append("static void corrupt_%d(void* p, unsigned which, unsigned value) { %s* o = (%s*) p; (void) o; (void) value; switch (which %% %du) {" % (i, name, name, max(len(cases), 1)))
        for k, c in enumerate(cases):
            lines.append("    case %d: %s break;" % (k, c))
        lines.append("    default: break; } }")
        lines.append("static void scribble_%d(void* p, unsigned which, unsigned value) { %s* o = (%s*) p; (void) o; (void) value; switch (which %% %du) {" % (i, name, name, max(len(scribs), 1)))
        for k, c in enumerate(scribs):
            lines.append("    case %d: %s break;" % (k, c))
        lines.append("    default: break; } }")
        rows.append('    {"%s", sizeof(%s), %s_EXTENT_BYTES_, %s_SERIALIZATION_BUFFER_SIZE_BYTES_, init_%d, ser_%d, des_%d, corrupt_%d, %du, scribble_%d, %du},' % (name, name, name, name, i, i, i, i, len(cases), i, len(scribs)))
    lines.append("static const vt_t TYPES[] = {")
    lines += rows
    lines.append("};")
    with open(path, "w", encoding="utf-8") as f:
        f.write("\n".join(lines) + "\n")


def write_cpp_table(inc_path: str, tbl_path: str, types: list, cfg: dict) -> None:
    import pydsdl
    import nunavut.lang.cpp as lcpp
    from nunavut.lang import LanguageContextBuilder

    lang = LanguageContextBuilder(include_experimental_languages=True).set_target_language("cpp").create().get_target_language()
    headers = []
    for t in types:
        parent = OWNER.get(id(t), t)
        hdr = "/".join([lcpp.filter_id(lang, c, "path") for c in parent.name_components[:-1]] + ["%s_%d_%d.hpp" % (parent.short_name, parent.version.major, parent.version.minor)])
        if hdr not in headers:
            headers.append(hdr)
    with open(inc_path, "w", encoding="utf-8") as f:
        f.write("\n".join('#include "%s"' % h for h in headers) + "\n")
    lines = []
    rows = []
    for i, t in enumerate(types):
        name = lcpp.filter_full_reference_name(lang, t)
        inner = _inner(t)
        cases = []
        if isinstance(inner, pydsdl.UnionType):
            for f in inner.fields:
                if isinstance(f.data_type, pydsdl.VariableLengthArrayType):
                    cases.append("o->set_%s().resize(%dU + 1U + (value %% 3u));" % (lcpp.filter_id(lang, f.name), f.data_type.capacity))
        else:
            for f in inner.fields_except_padding:
                if isinstance(f.data_type, pydsdl.VariableLengthArrayType):
                    cases.append("o->%s.resize(%dU + 1U + (value %% 3u));" % (lcpp.filter_id(lang, f.name), f.data_type.capacity))
                sub = _inner(f.data_type) if isinstance(f.data_type, pydsdl.CompositeType) else None
                if isinstance(sub, pydsdl.StructureType):
                    for g in sub.fields_except_padding:
                        if isinstance(g.data_type, pydsdl.VariableLengthArrayType):
                            cases.append("o->%s.%s.resize(%dU + 1U + (value %% 3u));" % (lcpp.filter_id(lang, f.name), lcpp.filter_id(lang, g.name), g.data_type.capacity))
        lines.append("static void corrupt_%d(void* p, unsigned which, unsigned value) { auto* o = static_cast<%s*>(p); (void) o; (void) value; switch (which %% %du) {" % (i, name, max(len(cases), 1)))
        for k, c in enumerate(cases):
            lines.append("    case %d: %s break;" % (k, c))
        lines.append("    default: break; } }")
        scribs = _cpp_scribble_cases(pydsdl, lcpp, lang, inner)
        lines.append("static void scribble_%d(void* p, unsigned which, unsigned value) { auto* o = static_cast<%s*>(p); (void) o; (void) value; switch (which %% %du) {" % (i, name, max(len(scribs), 1)))
        for k, c in enumerate(scribs):
            lines.append("    case %d: { %s } break;" % (k, c))
        lines.append("    default: break; } }")
        rows.append('    Ops<%s>::make("%s", corrupt_%d, %du, scribble_%d, %du),' % (name, name, i, len(cases), i, len(scribs)))
    lines.append("static const vt_t TYPES[] = {")
    lines += rows
    lines.append("};")
    with open(tbl_path, "w", encoding="utf-8") as f:
        f.write("\n".join(lines) + "\n")


# ---------------------------------------------------------------------------------------------------------------------
# valid-encoding generator and transport faults


def rand_value(r: Rng, t: typing.Any, depth: int = 0, full: bool = False) -> typing.Any:
    """full: the longest encoding the type has (every variable array at capacity, the widest alternative of every union)"""
    import pydsdl

    if isinstance(t, pydsdl.BooleanType):
        return r.chance(1, 2)
    if isinstance(t, pydsdl.UnsignedIntegerType):
        hi = (1 << t.bit_length) - 1
        return r.weighted([(0, 2), (hi, 2), (1, 1), (r.below(hi + 1), 5)])
    if isinstance(t, pydsdl.SignedIntegerType):
        lo, hi = -(1 << (t.bit_length - 1)), (1 << (t.bit_length - 1)) - 1
        return r.weighted([(0, 2), (lo, 2), (hi, 2), (-1, 1), (lo + r.below(hi - lo + 1), 5)])
    if isinstance(t, pydsdl.FloatType):
        return r.choice([0.0, 1.0, -1.5, 0.333251953125, 1024.0, -65504.0, 6.103515625e-05])
    if isinstance(t, pydsdl.FixedLengthArrayType):
        return [rand_value(r, t.element_type, depth + 1, full) for _ in range(t.capacity)]
    if isinstance(t, pydsdl.VariableLengthArrayType):
        n = r.weighted([(0, 2), (t.capacity, 3), (r.below(t.capacity + 1), 4)])
        if full:
            n = t.capacity
        if t.capacity > 1000:
            n = min(n, r.choice([0, 3, 64, 300]))  # (the valid-encoding generator is pure Python: keep huge arrays short)
        return [rand_value(r, t.element_type, depth + 1, full) for _ in range(n)]
    if isinstance(t, pydsdl.DelimitedType):
        return rand_value(r, t.inner_type, depth, full)
    if isinstance(t, pydsdl.UnionType):
        f = max(t.fields, key=lambda x: (x.data_type.bit_length_set.max, x.name)) if full else r.choice(list(t.fields))
        return {f.name: rand_value(r, f.data_type, depth + 1, full)}
    if isinstance(t, pydsdl.StructureType):
        return {f.name: rand_value(r, f.data_type, depth + 1, full) for f in t.fields_except_padding}
    raise TypeError(type(t).__name__)


def make_buffer(r: Rng, t: typing.Any, counters: dict) -> typing.Tuple[bytes, str]:
    import pydsdl

    extent = t.extent // 8
    kind = r.weighted([("valid", 5), ("truncated", 5), ("extended", 2), ("bitflip", 4), ("zerofill", 1), ("prefix", 3), ("splice", 1), ("empty", 1), ("random", 3), ("ones", 1)])
    if kind == "empty":
        return b"", kind
    if kind == "random":
        return r.bytes(r.below(extent + 9)), kind
    if kind == "ones":
        return b"\xff" * r.below(extent + 9), kind
    full = kind == "valid" and r.chance(1, 3)
    try:
        enc = pydsdl.serialize(t, rand_value(r, t, 0, full))
        if full:
            kind = "valid_max"  # the longest encoding of the type: the object then needs its whole serialization buffer
    except Exception:  # pylint: disable=broad-except
        counters["valid_encoding_generator_failed"] = counters.get("valid_encoding_generator_failed", 0) + 1
        return r.bytes(r.below(extent + 9)), "random"
    if kind in ("valid", "valid_max"):
        return enc, kind
    if kind == "truncated":
        return enc[: r.below(len(enc) + 1)], kind
    if kind == "extended":
        return enc + r.bytes(r.between(1, 9)), kind
    if kind == "bitflip":
        b = bytearray(enc)
        for _ in range(r.between(1, 3)):
            if b:
                i = r.below(len(b))
                b[i] ^= 1 << r.below(8)
        return bytes(b), kind
    if kind == "zerofill":
        return b"\0" * len(enc), kind
    if kind == "prefix":
        b = bytearray(enc)
        for i in range(min(len(b), r.between(1, 4))):
            b[i] = r.choice([0xFF, 0x80, 0x7F, r.below(256)])
        return bytes(b), kind
    try:
        other = pydsdl.serialize(t, rand_value(r, t))
    except Exception:  # pylint: disable=broad-except
        other = b""
    cut = r.below(len(enc) + 1)
    return enc[:cut] + other[r.below(len(other) + 1) :], "splice"


CAP_SPECIAL = [0xFFFFFFFF, 0xFFFFFFFE, 0xFFFFFFFD, 0, 1]


def make_ops(r: Rng, types: list, n: int, is_c: bool, counters: dict, full_cap_only: bool = False, allow_null: bool = True, checked_types: typing.Optional[typing.Set[int]] = None) -> typing.List[list]:
    """checked_types (capacity-override build): indices of the types whose own capacities the user did NOT reduce - their up-front
    buffer check is still compiled in, so undersized buffers are legitimate inputs for them"""
    ops = []  # type: typing.List[list]
    nt = len(types)
    i = 0
    last_kind = [""]
    full_cap_only_all = full_cap_only
    while len(ops) < n:
        ro = r.sub(i)
        i += 1
        ti = ro.below(nt)
        sl = ro.below(4)
        t = types[ti]
        full_cap_only = full_cap_only_all and not (checked_types is not None and ti in checked_types)
        kind = ro.weighted([("des", 50), ("ser", 24), ("init", 3), ("poison", 7), ("corrupt", 6), ("scribble", 6), ("copy", 4), ("move", 2 if not is_c else 0), ("reconstruct", 1 if not is_c else 0), ("selfassign", 1 if not is_c else 0), ("swap", 2 if not is_c else 0)])

        def des() -> list:
            buf, fk = make_buffer(ro.sub("buf", len(ops)), t, counters)
            counters["buf_" + fk] = counters.get("buf_" + fk, 0) + 1
            last_kind[0] = fk
            # (the C++ support library built with assertions asserts a non-null data pointer even for an empty span:
            # a NULL buffer is then API misuse by its own documentation, so it is not given to that build)
            return [2, ti, sl, ro.below(2) if allow_null else 0, buf.hex()]

        def ser() -> list:
            # (0xFFFFFFFF = exactly the advertised buffer size, ..FE one more, ..FD one less, ..FC-..F0 two to fourteen less)
            cap = ro.weighted([(0xFFFFFFFF, 4), (0xFFFFFFFE, 1), (0xFFFFFFFD, 2), (0xFFFFFFFE - ro.between(2, 14), 3), (0, 1), (1, 1), (ro.below(max(t.extent // 8, 1) + 2), 4)])
            if full_cap_only:
                # the capacity override is documented to disable the serialization buffer check: an undersized
                # output buffer is then the caller's error, so only sufficient buffers are legitimate inputs
                cap = ro.choice([0xFFFFFFFF, 0xFFFFFFFE])
            return [3, ti, sl, cap, ""]

        if kind == "des":
            ops.append(des())
            if last_kind[0] == "valid_max" and ro.chance(2, 3) and not full_cap_only:
                # the longest value the type has, serialised straight away into buffers of EVERY size (0 .. advertised + 1)
                ops.append([12, ti, sl, 0, ""])
            elif ro.chance(1, 40) and not full_cap_only:
                ops.append([12, ti, sl, 0, ""])
        elif kind == "ser":
            ops.append(ser())
        elif kind == "init":
            ops.append([1, ti, sl, 0, ""])
        elif kind == "poison":
            if is_c:
                ops.append([4, ti, sl, ro.choice([0x00, 0xFF, 0xA5]), ""])
            else:
                ops.append([4, ti, sl, ro.below(4), ""])
            ops.append(des())
        elif kind == "corrupt":
            ops.append([5, ti, sl, (ro.below(8) << 16) | ro.below(60000), ""])
        elif kind == "scribble":
            # one scalar leaf gets an extreme bit pattern, then (usually) the object is serialised
            ops.append([11, ti, sl, (ro.below(64) << 16) | ro.below(60000), ""])
            if ro.chance(3, 4):
                ops.append(ser())
            ops.append(ser())
            if ro.chance(1, 2):
                ops.append(des())
        elif kind == "copy":
            ops.append([6, ti, sl, ro.below(4), ""])
        elif kind == "move":
            ops.append([7, ti, sl, ro.below(4), ""])
        elif kind == "reconstruct":
            ops.append([8, ti, sl, 0, ""])
        elif kind == "selfassign":
            ops.append([9, ti, sl, 0, ""])
        else:
            ops.append([10, ti, sl, ro.below(4), ""])
    return ops


def write_script(path: str, ops: typing.List[list]) -> None:
    with open(path, "wb") as f:
        f.write(b"NVS1")
        for op, ti, sl, arg, hx in ops:
            b = bytes.fromhex(hx)
            f.write(struct.pack("<BHBII", op, ti, sl, arg & 0xFFFFFFFF, len(b)))
            f.write(b)


_ASAN = re.compile(r"ERROR: (AddressSanitizer|LeakSanitizer): ([\w-]+)")
_UBSAN = re.compile(r"runtime error: ([^\n]+)")


def classify_failure(rc: int, stdout: str, stderr: str) -> typing.Tuple[str, dict]:
    m = re.search(r"INVARIANT (\S+) op=(-?\d+) type=(\S+) a=(-?\d+) b=(-?\d+)", stdout)
    if rc == 3 and m:
        return "invariant:%s" % m.group(1), {"op_index": int(m.group(2)), "type": m.group(3), "a": int(m.group(4)), "b": int(m.group(5))}
    m = _ASAN.search(stderr)
    if m:
        kind = "leak" if m.group(1) == "LeakSanitizer" else m.group(2)
        frames = re.findall(r"#\d+ 0x[0-9a-f]+ in (\S+)", stderr)[:6]
        return "asan:%s" % kind, {"frames": frames, "report": stderr[:1500]}
    m = _UBSAN.search(stderr)
    if m:
        msg = re.sub(r"-?\d+(\.\d+)?(e[+-]?\d+)?", "N", m.group(1))
        msg = re.sub(r"'[^']*'", "T", msg)
        return "ubsan:%s" % re.sub(r"[^A-Za-z]+", "-", msg).strip("-")[:60], {"report": stderr[:1500]}
    return "crash:exit-%d" % rc, {"stderr": stderr[:1500], "stdout": stdout[-300:]}


def run_case(case: dict, ctx: dict) -> dict:
    counters = {"ops": {}, "buffers": {}, "harness": {}, "status": {}}  # type: typing.Dict[str, typing.Dict[str, int]]

    def bump(group: str, key: str, n: int = 1) -> None:
        counters[group][key] = counters[group].get(key, 0) + n

    work = os.path.join(ctx["scratch"], "c04")
    os.makedirs(work)
    sandbox = os.path.join(work, "disk")
    os.makedirs(sandbox)
    world = nnvg.World(sandbox)
    cfg = case["config"]
    tier = case.get("tier", ctx.get("tier", "quick"))
    stats = {}  # type: typing.Dict[str, typing.Any]
    if "dsdl" in case:
        roots, files = case["dsdl"]["roots"], case["dsdl"]["files"]
        if dsdlgen.validate(files, roots, os.path.join(ctx["scratch"], "val")) is not None:
            return {"violations": [], "evaluations": 0, "skipped": 1, "executed": case, "counters": counters}
    else:
        ds = dsdlgen.generate_valid(tuple(case["dsdl_seed"]), os.path.join(ctx["scratch"], "val"), profile=dsdlgen.Profile(**PROFILE), stats=stats)
        roots, files = ds.roots, ds.files
    dsdlgen.materialize_files(files, roots, world.in_dir)
    exec_case = {"label": case.get("label"), "hash_seed": case.get("hash_seed", 0), "dsdl": {"roots": list(roots), "files": dict(files)}, "config": cfg, "tier": tier}

    # ---- generate with the real CLI, from the current tree
    gen_dir = os.path.join(work, "gen")
    for root in roots:
        o = {"lang": cfg["lang"], "root": root, "lookups": [x for x in roots if x != root], "out_abs": gen_dir, "file_mode": 0o644}
        if cfg["lang"] == "cpp":
            o["std"] = cfg["std"]
        for k in ("asserts", "endianness", "override_varlen"):
            if cfg.get(k):
                o[k] = cfg[k]
        res = proc.run_invocation(world.invocation(o, perm_model=False))
        if not nnvg.succeeded(res):
            bump("status", "generation-failed")
            return {"violations": [], "evaluations": 1, "skipped": 1, "executed": exec_case, "counters": counters, "nontrivial_keys": [], "states": []}
    types = harness_types(world.in_dir, roots)
    is_c = cfg["lang"] == "c"
    exe = os.path.join(work, "harness")
    san = ["-O1", "-g", "-fsanitize=address,undefined", "-fno-sanitize-recover=all", "-fno-omit-frame-pointer"]
    defs = []  # type: typing.List[str]
    if is_c:
        write_c_table(os.path.join(work, "types_c.inc"), types, cfg)
        if cfg.get("override_varlen"):
            # the documented per-field capacity override: shrink every variable array of the set to a user capacity
            r0 = Rng(*case.get("ops_seed", [0])).sub("override")
            defs = case.get("defs") or _override_defs(gen_dir, r0, case.get("defs_policy"))
            exec_case["defs"] = defs
        if cfg.get("asserts"):
            defs.append("-DNUNAVUT_ASSERT(x)=assert(x)")
        cmd = ["clang", "-std=c11"] + san + defs + ["-I", gen_dir, "-I", work, os.path.join(HERE, "c04_codec", "harness.c"), "-o", exe, "-lm"]
    else:
        write_cpp_table(os.path.join(work, "types_cpp_includes.inc"), os.path.join(work, "types_cpp.inc"), types, cfg)
        std = {"c++17-pmr": "c++17"}.get(cfg["std"], cfg["std"])
        if cfg.get("asserts"):
            defs.append("-DNUNAVUT_ASSERT(x)=assert(x)")
        if cfg.get("disable_bufcheck"):
            macros = set()
            for d_, _, fs_ in os.walk(gen_dir):
                for fn_ in fs_:
                    if fn_.endswith(".hpp"):
                        with open(os.path.join(d_, fn_), "r", encoding="utf-8") as f_:
                            macros.update(re.findall(r"#ifndef (\w+_DISABLE_SERIALIZATION_BUFFER_CHECK_)", f_.read()))
            defs += ["-D%s" % m for m in sorted(macros)]
            exec_case["defs"] = list(defs)
        cmd = ["clang++", "-std=" + std] + san + defs + ["-I", gen_dir, "-I", work, os.path.join(HERE, "c04_codec", "harness.cpp"), "-o", exe]
    try:
        cp = subprocess.run(cmd, stdout=subprocess.PIPE, stderr=subprocess.PIPE, timeout=240, check=False)
    except subprocess.TimeoutExpired:
        bump("status", "compile-timeout")
        return {"violations": [], "evaluations": 1, "skipped": 1, "executed": exec_case, "counters": counters, "nontrivial_keys": [], "states": []}
    if cp.returncode != 0:
        bump("status", "compile-failed")
        first = [ln for ln in cp.stderr.decode("utf-8", "replace").split("\n") if "error" in ln][:2]
        if str(case.get("label", "")).startswith("directed-"):
            # the directed type sets are plain DSDL that compiles on the pinned tree: a failure here means that the
            # harness (or the toolchain) is broken, and a batch that then "holds" would be vacuous
            raise proc.HarnessError("harness build failed for %s (%s): %s" % (case.get("label"), cfg["name"], " | ".join(first)[:600]))
        return {"violations": [], "evaluations": 1, "skipped": 1, "executed": exec_case, "counters": counters, "nontrivial_keys": [], "states": [], "sample": {"compile_error": first, "config": cfg["name"]}}
    bump("status", "built")

    # ---- the op script
    if "ops" in case:
        ops = [list(o) for o in case["ops"]]
    else:
        r = Rng(*case["ops_seed"])
        n = case.get("n_ops") or (1500 if tier == "quick" else 12000)
        checked = None
        if cfg.get("override_varlen") and is_c:
            # the documented rule: the buffer check of a type is compiled out only if the user supplied one of ITS capacities
            checked = set()
            for ti_, t_ in enumerate(types):
                pfx = "-D%s_%d_%d_" % (t_.full_name.replace(".", "_"), t_.version.major, t_.version.minor)
                if not any(d.startswith(pfx) for d in defs):
                    checked.add(ti_)
        ops = make_ops(r, types, n, is_c, counters["buffers"], full_cap_only=bool(cfg.get("override_varlen")) and is_c, allow_null=not (cfg.get("asserts") and not is_c), checked_types=checked)
    exec_case["ops"] = ops
    script = os.path.join(work, "script.bin")
    write_script(script, ops)
    env = dict(os.environ)
    env["ASAN_OPTIONS"] = "detect_leaks=1:exitcode=99:allocator_may_return_null=1:detect_stack_use_after_return=1"
    env["UBSAN_OPTIONS"] = "halt_on_error=1:print_stacktrace=0"
    violations = []  # type: typing.List[dict]
    try:
        rp = subprocess.run([exe, script], stdout=subprocess.PIPE, stderr=subprocess.PIPE, timeout=120, env=env, check=False)
        rc, so, se = rp.returncode, rp.stdout.decode("utf-8", "replace"), rp.stderr.decode("utf-8", "replace")
    except subprocess.TimeoutExpired:
        rc, so, se = -1, "", "timeout"
    hstats = {}  # type: typing.Dict[str, int]
    if rc == 0:
        m = re.search(r"STATS (\{.*\})", so)
        if not m:
            raise proc.HarnessError("harness printed no STATS line")
        hstats = json.loads(m.group(1))
        for k, v in hstats.items():
            bump("harness", k, v)
        bump("status", "script-ok")
    elif rc == 2:
        raise proc.HarnessError("harness rejected the script")
    elif rc == -1:
        violations.append({"signature": "%s:%s:timeout" % (PROP, cfg["name"]), "detail": {"config": cfg, "n_ops": len(ops)}})
    else:
        cls, detail = classify_failure(rc, so, se)
        detail["config"] = cfg["name"]
        detail["n_ops"] = len(ops)
        detail["n_types"] = len(types)
        violations.append({"signature": "%s:%s:%s" % (PROP, cfg["name"], cls), "detail": detail})
        bump("status", "script-failed")
    for o in ops:
        bump("ops", {1: "INIT", 2: "DES", 3: "SER", 4: "POISON", 5: "CORRUPT", 6: "COPY", 7: "MOVE", 8: "RECONSTRUCT", 9: "SELFASSIGN", 10: "SWAP", 11: "SCRIBBLE", 12: "SWEEP"}.get(o[0], "?"))
    nontrivial = []
    if hstats and (hstats.get("decode_into_used_slot", 0) + hstats.get("decode_after_failed_decode", 0) + hstats.get("decode_into_corrupted_slot", 0)) > 0 and hstats.get("ser_small_cap", 0) > 0:
        nontrivial.append(hashlib.sha256(repr((sorted(files.items()), cfg["name"], sorted(counters["ops"].items()), sorted(counters["buffers"].items()))).encode()).hexdigest()[:16])
    states = ["%s|%s" % (cfg["name"], k) for k, v in hstats.items() if v]
    counters["dsdl"] = {k: v for k, v in stats.items() if isinstance(v, int)}
    return {
        "violations": violations,
        "executed": exec_case,
        "evaluations": len(ops),
        "nontrivial_keys": nontrivial,
        "states": states,
        "counters": counters,
        "sim_time_s": 0.0,
        "sample": {"config": cfg["name"], "n_types": len(types), "first_ops": [[o[0], o[1], o[2], o[3], o[4][:24]] for o in ops[:6]]},
        "digest": hashlib.sha256(repr((cfg["name"], rc, so)).encode()).hexdigest()[:16],
    }


def _override_defs(gen_dir: str, r: Rng, policy: typing.Optional[str] = None) -> typing.List[str]:
    """-D<Type>_<field>_ARRAY_CAPACITY_=k for a seeded subset of the variable arrays (k below the DSDL capacity)."""
    defs = []
    pat = re.compile(r"#define (\w+_ARRAY_CAPACITY_)\s+(\d+)U")
    names = []
    for d, _, fs in os.walk(gen_dir):
        for fn in sorted(fs):
            if fn.endswith(".h"):
                with open(os.path.join(d, fn), "r", encoding="utf-8") as f:
                    text = f.read()
                if "#ifndef" in text:
                    for m in pat.finditer(text):
                        # only overridable ones are wrapped in #ifndef
                        if ("#ifndef %s" % m.group(1)) in text:
                            names.append((m.group(1), int(m.group(2))))
    for name, cap in sorted(set(names)):
        rr = r.sub(name)
        if policy == "all-one" and cap > 1:
            defs.append("-D%s=1U" % name)  # every overridable array reduced as far as it goes
        elif cap > 1 and rr.chance(3, 4):
            defs.append("-D%s=%dU" % (name, rr.weighted([(1, 2), (max(1, cap // 2), 2), (cap - 1, 1), (rr.between(1, cap - 1), 3)])))
    return defs


def reductions(case: dict) -> typing.Iterator[dict]:
    ops = case.get("ops")
    if not ops:
        return
    n = len(ops)
    # binary chop, then smaller chunks
    chunk = n // 2
    while chunk >= 1:
        for start in range(0, n, chunk):
            if n - chunk >= 1:
                c = dict(case)
                c["ops"] = ops[:start] + ops[start + chunk :]
                yield c
        if chunk == 1:
            break
        chunk //= 2
        if n > 64 and chunk < n // 16:
            break
    yield from nnvg.reduce_dsdl(case)
