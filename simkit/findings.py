"""
KNOWN_FINDINGS.json loader (DESIGN 1.6). The file is committed and never written at run time.

A violation is identified by its *signature*: the invariant that failed plus the minimal detail that pins the
defect (the simulations compute it narrowly: a discrepancy gets a known-defect signature only if that defect
explains all of it). An entry with status "known" suppresses exactly the violations whose signature equals
``match.signature`` (or is one of ``match.signatures``); an entry with status "fixed" suppresses nothing.
"""
import json
import os
import typing

VERIF_DIR = os.path.dirname(os.path.dirname(os.path.abspath(__file__)))
PATH = os.path.join(VERIF_DIR, "KNOWN_FINDINGS.json")


def load(prop: typing.Optional[str] = None) -> typing.List[dict]:
    if not os.path.exists(PATH):
        return []
    with open(PATH, "r", encoding="utf-8") as f:
        data = json.load(f)
    out = []
    for e in data.get("findings", []):
        if prop is None or e.get("property") == prop:
            out.append(e)
    return out


def classify(known: typing.List[dict], prop: str, violation: dict) -> typing.Optional[dict]:
    for e in known:
        if e.get("status") != "known" or e.get("property") != prop:
            continue
        m = e.get("match", {})
        if m.get("signature") == violation.get("signature") or violation.get("signature") in m.get("signatures", []):
            return e
    return None
