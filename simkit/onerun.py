"""
One simulated invocation in a *fresh* interpreter (cold caches, its own PYTHONHASHSEED): reads the invocation as
JSON on stdin, streams events and the final record as JSON lines on the original stdout.
"""
import json
import os
import sys


def main() -> int:
    here = os.path.dirname(os.path.dirname(os.path.abspath(__file__)))
    if here not in sys.path:
        sys.path.insert(0, here)
    src = os.environ.get("NUNAVUT_SRC", "/repo/src")
    if src in sys.path:
        sys.path.remove(src)
    sys.path.insert(0, src)
    sys.dont_write_bytecode = True
    inv = json.loads(sys.stdin.read())
    wfd = os.dup(1)
    devnull = os.open(os.devnull, os.O_WRONLY)
    os.dup2(devnull, 1)
    from simkit import proc

    proc._child_main(inv, wfd)  # pylint: disable=protected-access
    return 0


if __name__ == "__main__":
    code = main()
    sys.stdout.flush()
    os._exit(code)
