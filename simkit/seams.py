"""
The seams between nunavut and its environment, owned by the simulator (DESIGN section 0 and 1.3).

``Seams.install()`` is called inside the process that runs nunavut (a forked child for invocation-level
simulations, the case process for interpreter-level ones). Nothing here draws randomness: every decision is
taken from the explicit plan dict, which the scheduler wrote and the replay file records.
"""
import builtins
import errno as errno_mod
import io
import json
import os
import stat
import sys
import types
import typing

from .rng import Rng

MUTATING = {
    "os.chmod", "os.chown", "os.link", "os.mkdir", "os.remove", "os.rename", "os.rmdir", "os.symlink",
    "os.truncate", "os.utime", "shutil.copyfile", "shutil.copymode", "shutil.copystat", "shutil.copytree",
    "shutil.move", "shutil.rmtree", "tempfile.mkstemp", "tempfile.mkdtemp", "os.mkfifo", "os.mknod",
    "os.setxattr", "os.removexattr",
}  # fmt: skip
OBSERVED = {"os.listdir", "os.scandir", "os.chdir", "subprocess.Popen", "os.system", "os.exec", "os.posix_spawn"}
WRITE_FLAGS = os.O_WRONLY | os.O_RDWR | os.O_CREAT | os.O_TRUNC | os.O_APPEND
CRASH_STATUS = 137


class SimClock:
    """The only clock nunavut reads. Advanced by the plan at every output-file open, never by real time."""

    def __init__(self, start: float, deltas: typing.Sequence[float]):
        self.now = float(start)
        self.start = float(start)
        self.deltas = list(deltas) or [0.0]
        self.ticks = 0

    def tick(self) -> None:
        self.now += self.deltas[self.ticks % len(self.deltas)]
        self.ticks += 1

    def time(self) -> float:
        return self.now


class _ScandirProxy:
    def __init__(self, entries: list):
        self._entries = entries
        self._i = 0

    def __iter__(self) -> "_ScandirProxy":
        return self

    def __next__(self) -> typing.Any:
        if self._i >= len(self._entries):
            raise StopIteration
        e = self._entries[self._i]
        self._i += 1
        return e

    def __enter__(self) -> "_ScandirProxy":
        return self

    def __exit__(self, *a: typing.Any) -> None:
        self.close()

    def close(self) -> None:
        self._i = len(self._entries)


class _WFile:
    """Proxy of a file opened for writing inside the sandbox: counts writes and realises write-side faults."""

    def __init__(self, f: typing.Any, seams: "Seams", ordinal: int, rel: str):
        object.__setattr__(self, "_f", f)
        object.__setattr__(self, "_seams", seams)
        object.__setattr__(self, "_ord", ordinal)
        object.__setattr__(self, "_rel", rel)
        object.__setattr__(self, "_n", 0)

    def write(self, data: typing.Any) -> typing.Any:
        s = self._seams
        j = self._n
        object.__setattr__(self, "_n", j + 1)
        s.writes_per_file[self._ord] = j + 1
        flt = s.fault
        if (
            flt is not None
            and not s.fault_fired
            and flt["kind"] in ("write_oserror", "write_crash")
            and flt["file"] == self._ord
            and flt["write"] == j
        ):
            keep = len(data) * int(flt.get("partial", 0)) // 100
            if keep:
                self._f.write(data[:keep])
            if flt.get("flush", True):
                self._f.flush()
            s.fire("%s file=%d(%s) write=%d keep=%d" % (flt["kind"], self._ord, self._rel, j, keep))
            if flt["kind"] == "write_crash":
                s.crash()
            code = getattr(errno_mod, flt.get("errno", "ENOSPC"))
            raise OSError(code, os.strerror(code), self._rel)
        return self._f.write(data)

    def writelines(self, lines: typing.Iterable) -> None:
        for ln in lines:
            self.write(ln)

    def __enter__(self) -> "_WFile":
        return self

    def __exit__(self, *a: typing.Any) -> typing.Any:
        return self._f.__exit__(*a)

    def __iter__(self) -> typing.Any:
        return iter(self._f)

    def __getattr__(self, n: str) -> typing.Any:
        return getattr(self._f, n)

    def __setattr__(self, n: str, v: typing.Any) -> None:
        setattr(self._f, n, v)


class Seams:
    """
    plan keys (all optional):
      sandbox      absolute path of the simulated disk; only events inside it are judged
      clock        {"start": float, "deltas": [float, ...]}
      enum_seed    int: permute os.listdir/os.scandir results by H(enum_seed, dir, ordinal)
      perm_model   bool: apply POSIX owner permission rules although the process is root
      rofs         bool: every mutation inside the sandbox fails with EROFS
      fault        {"kind": "oserror"|"crash"|"write_oserror"|"write_crash"|"extprog_fail", ...}
      buffering    int: buffer size given to real open() for sandbox write-opens (transparent tuning knob)
      chunk_seed   int: re-cut the output of every Template.generate() call
      extprog      "ok" -> fake formatter edits in place; "rename" -> temp file + rename; "crlf" -> line-ending normaliser
      extra_support_files  {"lang": ..., "paths": [...]}: plain headers the language's support package ships
      read_faults  {path suffix: errno name}: opening such a file for reading fails although it exists
    """

    def __init__(self, plan: dict, sink: typing.Optional[typing.Callable[[list], None]] = None):
        self.plan = plan
        self.sandbox = os.path.realpath(plan["sandbox"]) if plan.get("sandbox") else None
        self.events = []  # type: typing.List[list]
        self.sink = sink
        self.seq = 0
        self.mut_count = 0
        self.wopen_count = 0
        self.writes_per_file = {}  # type: typing.Dict[int, int]
        self.wopen_paths = []  # type: typing.List[str]
        self.fault = plan.get("fault")
        self.read_faults = dict(plan.get("read_faults") or {})  # type: typing.Dict[str, str]
        self.kind_counts = {}  # type: typing.Dict[str, int]
        self.stream_fault = None  # type: typing.Optional[dict]
        self.stream_calls = 0
        self.fault_fired = None  # type: typing.Optional[str]
        self.extprog_calls = 0
        self.enum_calls = {}  # type: typing.Dict[str, int]
        c = plan.get("clock")
        self.clock = SimClock(c["start"], c.get("deltas", [0])) if c else None
        self._in_hook = False
        self.enabled = True
        self._real_open = builtins.open
        self._real_listdir = os.listdir
        self._real_scandir = os.scandir
        self.probes = {}  # type: typing.Dict[str, int]

    # ------------------------------------------------------------------ helpers
    def rel(self, path: typing.Any) -> typing.Optional[str]:
        """'@/x/y' for paths inside the sandbox, absolute path otherwise, None for fds and junk."""
        if isinstance(path, int) or path is None:
            return None
        try:
            p = os.fspath(path)
        except TypeError:
            return None
        if isinstance(p, bytes):
            p = os.fsdecode(p)
        # where the kernel will really go: symbolic links resolved, then "..", never a lexical normalisation
        # ("link/../x" is NOT "x" when link points elsewhere); the last component itself is not followed
        p = os.path.join(os.getcwd(), p)
        head, tail = os.path.split(p.rstrip(os.sep)) if p.rstrip(os.sep) else (p, "")
        p = os.path.join(os.path.realpath(head), tail) if tail not in ("", ".", "..") else os.path.realpath(p)
        if self.sandbox is not None:
            if p == self.sandbox:
                return "@"
            if p.startswith(self.sandbox + os.sep):
                return "@/" + p[len(self.sandbox) + 1 :]
        return p

    def abs_of(self, rel: str) -> str:
        if rel == "@":
            return typing.cast(str, self.sandbox)
        if rel.startswith("@/"):
            return os.path.join(typing.cast(str, self.sandbox), rel[2:])
        return rel

    def probe(self, name: str) -> None:
        self.probes[name] = self.probes.get(name, 0) + 1

    def record(self, kind: str, rel: typing.Optional[str], extra: typing.Any = None) -> None:
        ev = [self.seq, kind, rel, extra]
        self.seq += 1
        if self.sink is not None:
            self.sink(ev)
        else:
            self.events.append(ev)

    def fire(self, what: str) -> None:
        self.fault_fired = what
        self.record("fault", None, what)

    def crash(self) -> None:
        # process death: user-space buffers are lost, finally-blocks do not run
        os._exit(CRASH_STATUS)

    # ------------------------------------------------------------------ permission model
    def _check_perm(self, event: str, rel: str, write: bool, create: bool) -> None:
        p = self.abs_of(rel)
        try:
            st = os.stat(p)
            exists = True
        except OSError:
            st = None
            exists = False
        if event == "open":
            if exists:
                if stat.S_ISDIR(st.st_mode):
                    return
                need = stat.S_IWUSR if write else stat.S_IRUSR
                if not st.st_mode & need:
                    self.probe("eacces_file")
                    self.record("eacces", rel, "open-%s" % ("w" if write else "r"))
                    raise PermissionError(errno_mod.EACCES, "Permission denied (simulated owner)", p)
                return
            if not create:
                return
        # creation / removal / rename: parent directory must be writable and searchable
        parent = os.path.dirname(p)
        try:
            pst = os.stat(parent)
        except OSError:
            return
        if (pst.st_mode & (stat.S_IWUSR | stat.S_IXUSR)) != (stat.S_IWUSR | stat.S_IXUSR):
            self.probe("eacces_dir")
            self.record("eacces", rel, event)
            raise PermissionError(errno_mod.EACCES, "Permission denied (simulated owner, directory)", p)

    # ------------------------------------------------------------------ the audit hook
    def _hook(self, event: str, args: tuple) -> None:
        if not self.enabled or self._in_hook:
            return
        if event != "open" and event not in MUTATING and event not in OBSERVED:
            return
        self._in_hook = True
        try:
            self._hook_inner(event, args)
        finally:
            self._in_hook = False

    def _hook_inner(self, event: str, args: tuple) -> None:
        if event == "open":
            path, mode, flags = (tuple(args) + (None, None, None))[:3]
            rel = self.rel(path)
            if rel is None:
                return
            flags = flags or 0
            write = bool(flags & WRITE_FLAGS)
            inside = rel.startswith("@")
            if not write:
                self.record("open-r", rel)
                if inside and self.plan.get("perm_model"):
                    self._check_perm("open", rel, False, False)
                return
            if not inside:
                self.record("open-w", rel, "outside")
                return
            self._mutation("open-w", rel, {"create": bool(flags & os.O_CREAT), "flags": flags})
            if self.clock is not None:
                self.clock.tick()
            return
        if event in MUTATING:
            rels = [self.rel(a) for a in args[:2] if isinstance(a, (str, bytes, os.PathLike))]
            rels = [r for r in rels if r is not None]
            inside = [r for r in rels if r.startswith("@")]
            if not inside:
                if rels:
                    self.record(event, rels[0], "outside")
                return
            extra = None
            if event == "os.chmod" and len(args) > 1 and isinstance(args[1], int):
                extra = {"mode": args[1] & 0o7777}
            self._mutation(event, inside[-1] if event in ("shutil.copyfile", "os.rename", "os.link") else inside[0], extra)
            return
        # observed only
        rel = self.rel(args[0]) if args and isinstance(args[0], (str, bytes, os.PathLike)) else None
        if event == "subprocess.Popen":
            self.record(event, None, [str(a) for a in (args[1] if len(args) > 1 and args[1] else [])][:8])
        else:
            self.record(event, rel)

    def _mutation(self, kind: str, rel: str, extra: typing.Any) -> None:
        k = self.mut_count
        self.mut_count += 1
        flt = self.fault
        if self.plan.get("rofs"):
            self.record(kind, rel, {"rofs": True})
            self.probe("erofs")
            raise OSError(errno_mod.EROFS, "Read-only file system (simulated)", self.abs_of(rel))
        if self.plan.get("perm_model"):
            if kind == "open-w":
                self._check_perm("open", rel, True, bool(extra and extra.get("create")))
            elif kind in ("os.mkdir", "os.remove", "os.rename", "os.rmdir", "os.symlink", "os.link"):
                self._check_perm(kind, rel, True, True)
            elif kind == "os.truncate":
                self._check_perm("open", rel, True, False)
        kc = self.kind_counts.get(kind, 0)
        self.kind_counts[kind] = kc + 1
        if flt is not None and not self.fault_fired and flt["kind"] == "oserror_on" and flt.get("on") == kind and flt.get("nth") == kc:
            # the n-th call of ONE kind is refused (a chmod on a file system that does not support it, an immutable file)
            self.fire("%s refused: %s #%d (%s)" % (flt.get("errno", "EPERM"), kind, kc, rel))
            code = getattr(errno_mod, flt.get("errno", "EPERM"))
            raise OSError(code, os.strerror(code) + " (injected)", self.abs_of(rel))
        if flt is not None and not self.fault_fired and flt["kind"] in ("oserror", "crash") and flt["at"] == k:
            self.fire("%s at mutation %d (%s %s)" % (flt["kind"], k, kind, rel))
            if flt["kind"] == "crash":
                self.crash()
            code = getattr(errno_mod, flt.get("errno", "EIO"))
            raise OSError(code, os.strerror(code) + " (injected)", self.abs_of(rel))
        self.record(kind, rel, extra)

    # ------------------------------------------------------------------ wrappers
    def _open(self, file: typing.Any, mode: str = "r", buffering: int = -1, *a: typing.Any, **kw: typing.Any) -> typing.Any:
        if not self.enabled:
            return self._real_open(file, mode, buffering, *a, **kw)
        writing = any(c in mode for c in "wax+")
        if not writing and self.read_faults:
            # a read that the kernel refuses although the file is there (EACCES, EIO, ESTALE): keyed by path suffix
            rrel = self.rel(file) or ""
            for suffix, code in self.read_faults.items():
                if rrel.endswith(suffix):
                    self.record("read-fault", rrel, code)
                    self.probe("read_fault_fired")
                    raise OSError(getattr(errno_mod, code), "simulated read fault", str(file))
        rel = self.rel(file) if writing else None
        if not writing or rel is None or not rel.startswith("@"):
            return self._real_open(file, mode, buffering, *a, **kw)
        knob = self.plan.get("buffering")
        if knob is not None and buffering == -1:
            if "b" in mode:
                buffering = max(int(knob), 2)
            else:
                buffering = int(knob) if int(knob) != 0 else -1
        f = self._real_open(file, mode, buffering, *a, **kw)
        ordinal = self.wopen_count
        self.wopen_count += 1
        self.wopen_paths.append(rel)
        self.writes_per_file[ordinal] = 0
        return _WFile(f, self, ordinal, rel)

    def _permute(self, names: list, rel: typing.Optional[str]) -> list:
        seed = self.plan.get("enum_seed")
        names = sorted(names)
        if seed is None:
            return names
        key = rel or "?"
        n = self.enum_calls.get(key, 0)
        self.enum_calls[key] = n + 1
        return Rng("enum", seed, key, n).shuffle(names)

    def _listdir(self, path: typing.Any = ".") -> list:
        res = self._real_listdir(path)
        if not self.enabled or isinstance(path, int):
            return res
        return self._permute(list(res), self.rel(path))

    def _scandir(self, path: typing.Any = ".") -> typing.Any:
        if not self.enabled or isinstance(path, int):
            return self._real_scandir(path)
        with self._real_scandir(path) as it:
            entries = list(it)
        by_name = {e.name: e for e in entries}
        order = self._permute(list(by_name.keys()), self.rel(path))
        return _ScandirProxy([by_name[n] for n in order])

    def _fake_subprocess_run(self, run_args: typing.List[str], check: bool = False, **kw: typing.Any) -> typing.Any:
        import subprocess

        n = self.extprog_calls
        self.extprog_calls += 1
        # like clang-format -i or a linter, the fake program works on EVERY file named on its command line (the
        # arguments after the program name that are files of the sandbox), not only on the last one
        targets = [a for a in run_args[1:] if isinstance(a, str) and os.path.isfile(a) and bool(self.sandbox) and os.path.realpath(a).startswith(str(self.sandbox) + os.sep)]
        if not targets:
            targets = [run_args[-1]]
        self.record("extprog", self.rel(targets[-1]), n)
        flt = self.fault
        if flt is not None and not self.fault_fired and flt["kind"] == "extprog_fail" and flt["at"] == n:
            self.fire("extprog_fail call=%d" % n)
            code = 1
            if flt.get("how") == "killed":
                # the program dies of a signal (OOM killer, a crash) after it rewrote half of the file: negative return code
                code = -9
                try:
                    size = os.path.getsize(targets[-1])
                    with open(targets[-1], "r+", encoding="utf-8", newline="") as f:
                        f.truncate(size // 2)
                except OSError:
                    pass
            if check:
                raise subprocess.CalledProcessError(code, run_args)
            return subprocess.CompletedProcess(run_args, code, stdout=b"", stderr=b"")
        for target in targets:
            with open(target, "r", encoding="utf-8", newline="") as f:
                text = f.read()
            if self.plan.get("extprog") == "crlf":
                # a line-ending normaliser: LF -> CRLF, nothing else
                text = text.replace("\r\n", "\n").replace("\n", "\r\n")
            else:
                # like real formatters and linters (include-guard fixers, banner writers) the fake one is sensitive to
                # the NAME of the file it is given: the base name goes into the text it appends
                base = os.path.basename(target)
                text = text.replace("\t", "    ") + ("\n/* formatted %s */\n" % base if not target.endswith((".py", ".html")) else "\n# formatted %s\n" % base if target.endswith(".py") else "\n<!-- formatted %s -->\n" % base)
            if self.plan.get("extprog") == "rename":
                # a formatter that writes a temporary file and renames it over the original (new inode, default mode)
                tmp = target + ".fmt-tmp"
                with open(tmp, "w", encoding="utf-8", newline="") as f:
                    f.write(text)
                os.replace(tmp, target)
            else:
                with open(target, "w", encoding="utf-8", newline="") as f:
                    f.write(text)
        return subprocess.CompletedProcess(run_args, 0, stdout=b"", stderr=b"")

    # ------------------------------------------------------------------ install
    def install(self) -> None:
        plan = self.plan
        if self.clock is not None:
            import datetime as real_datetime
            import time

            clock = self.clock

            class _SimDateTime(real_datetime.datetime):
                @classmethod
                def utcnow(cls):  # type: ignore
                    return real_datetime.datetime(1970, 1, 1) + real_datetime.timedelta(seconds=clock.time())

                @classmethod
                def now(cls, tz=None):  # type: ignore
                    base = real_datetime.datetime(1970, 1, 1) + real_datetime.timedelta(seconds=clock.time())
                    return base if tz is None else base.replace(tzinfo=real_datetime.timezone.utc).astimezone(tz)

            shim = types.ModuleType("datetime")
            shim.__dict__.update(real_datetime.__dict__)
            shim.datetime = _SimDateTime  # type: ignore
            import nunavut.jinja

            if not hasattr(nunavut.jinja, "datetime"):
                raise SeamMissing("nunavut.jinja.datetime")
            nunavut.jinja.datetime = shim  # type: ignore
            time.time = clock.time  # type: ignore
        if plan.get("enum_seed") is not None or plan.get("sort_enum"):
            os.listdir = self._listdir  # type: ignore
            os.scandir = self._scandir  # type: ignore
        if plan.get("extprog"):
            import nunavut._postprocessors as pp

            if not hasattr(pp, "subprocess_run"):
                raise SeamMissing("nunavut._postprocessors.subprocess_run")
            pp.subprocess_run = self._fake_subprocess_run  # type: ignore
        if plan.get("chunk_seed") is not None:
            self._install_rechunker(plan["chunk_seed"])
        elif plan.get("stream_fault_seam"):
            self._install_stream_fault()
        if plan.get("extra_support_files"):
            self._install_extra_support_files(plan["extra_support_files"])
        builtins.open = self._open  # type: ignore
        io.open = self._open  # type: ignore
        sys.addaudithook(self._hook)

    def _install_extra_support_files(self, spec: dict) -> None:
        """
        The support package of a language ships a plain (non-template) header besides its templates - as a vendor's
        language package may: {"lang": "c", "paths": [...]}. The files themselves live in the sandbox; the package's
        documented list_support_files() entry point names them in addition to its own resources.
        """
        import importlib
        import pathlib

        from nunavut._utilities import ResourceType

        mod = importlib.import_module("nunavut.lang.%s.support" % spec["lang"])
        real = getattr(mod, "list_support_files", None)
        if real is None:
            raise SeamMissing("nunavut.lang.%s.support.list_support_files" % spec["lang"])
        extra = [pathlib.Path(p) for p in spec["paths"]]

        def list_support_files(resource_type: typing.Any = ResourceType.ANY) -> typing.Iterator[typing.Any]:
            for p in real(resource_type):
                yield p
            if resource_type in (ResourceType.ANY, ResourceType.SERIALIZATION_SUPPORT):
                for p in extra:
                    yield p

        mod.list_support_files = list_support_files  # type: ignore

    def _install_stream_fault(self) -> None:
        """The chunk source of a file (the template, a filter, an {% assert %}) raises after some characters were already handed
        over - usually in the middle of a line. Armed through ``self.stream_fault = {"call": n, "after_chars": k}``; calls are
        counted from ``self.stream_calls`` (reset by the simulation before each invocation)."""
        from nunavut.jinja.jinja2 import Template

        real_generate = Template.generate
        seams = self

        class TemplateStreamFault(RuntimeError):
            pass

        def generate(tself: typing.Any, *a: typing.Any, **kw: typing.Any) -> typing.Iterator[str]:
            n = seams.stream_calls
            seams.stream_calls += 1
            flt = seams.stream_fault
            gen = real_generate(tself, *a, **kw)
            if flt is None or seams.fault_fired or flt.get("call") != n:
                yield from gen
                return
            emitted = 0
            for chunk in gen:
                if emitted + len(chunk) > flt["after_chars"]:
                    yield chunk[: flt["after_chars"] - emitted]
                    seams.fire("stream_fault call=%d" % n)
                    raise TemplateStreamFault("the template raised after %d characters" % flt["after_chars"])
                emitted += len(chunk)
                yield chunk

        Template.generate = generate  # type: ignore

    def _install_rechunker(self, seed: int) -> None:
        from nunavut.jinja.jinja2 import Template

        real_generate = Template.generate
        counter = [0]
        seams = self

        def generate(tself: typing.Any, *a: typing.Any, **kw: typing.Any) -> typing.Iterator[str]:
            n = counter[0]
            counter[0] += 1
            text = "".join(real_generate(tself, *a, **kw))
            r = Rng("chunk", seed, n)
            style = r.below(5)
            i = 0
            while i < len(text):
                if style == 0:
                    size = 1
                elif style == 1:
                    size = r.choice([0, 1, 2, 3, 5, 8, 13, 64, 1000])
                elif style == 2:
                    size = r.between(0, 40)
                elif style == 3:
                    # cut right after the next CR if there is one (splits a CRLF), else after the next LF
                    j = text.find("\r", i)
                    if j < 0:
                        j = text.find("\n", i)
                    size = (j - i + 1) if j >= 0 else len(text) - i
                else:
                    size = len(text)
                if size and text[i + size - 1 : i + size + 1] == "\r\n":
                    seams.probe("cut_inside_crlf")
                yield text[i : i + size]
                i += size

        Template.generate = generate  # type: ignore


def is_mutating(kind: str) -> bool:
    """Event kinds (as recorded) that change the disk."""
    return kind == "open-w" or kind in MUTATING


class SeamMissing(Exception):
    """A name the simulator patches no longer exists: a harness error, never a violation."""


def dump_event(ev: list) -> bytes:
    return (json.dumps(ev, separators=(",", ":")) + "\n").encode("utf-8")
