// Generic C++ harness for C04 (generated C++ codecs: memory-safe, total, free of prior-state influence).
// Interprets a scheduler-written binary op script over a pool of persistent destination objects ("slots") and
// exactly-sized heap buffers, under ASan+UBSan+LSan. The type table comes from the generated "types_cpp.inc".
// Exit status: 0 ok, 3 invariant failure (a line "INVARIANT ..." on stdout), anything else: sanitizer / crash.
#include <cstdint>
#include <cstddef>
#include <cstdio>
#include <cstdlib>
#include <cstring>
#include <cassert>
#include <new>
#include <utility>
#include <type_traits>
#include <vector>
#include <array>
#include <limits>
#include <memory>
#if __cplusplus >= 201703L
// Generated headers of delimited (@extent) unions do not include <variant> themselves. Self-sufficiency of headers is
// property C06 (not claimed); the harness includes it so that C04's subject can be reached.
#include <variant>
#include <memory_resource>
#endif

struct vt_t
{
    const char* name;
    std::size_t extent;
    std::size_t bufsize;
    void* (*create)();
    void (*destroy)(void*);
    int (*ser)(const void*, std::uint8_t*, std::size_t, std::size_t*);
    int (*des)(void*, const std::uint8_t*, std::size_t, std::size_t*);
    void (*assign)(void*, const void*);
    void (*move_assign)(void*, void*);
    void* (*clone)(const void*);
    void (*swap)(void*, void*);
    void (*corrupt)(void*, unsigned, unsigned);
    unsigned n_corrupt;
    void (*scribble)(void*, unsigned, unsigned);
    unsigned n_scribble;
};

static void no_corrupt(void*, unsigned, unsigned) {}

// "any object contents": one scalar leaf (never a bool) gets an extreme or arbitrary bit pattern; the object stays a live,
// valid C++ object, so it must serialise (or report a documented error), copy, move and destroy without UB
static void scrib(void* p, std::size_t n, unsigned v)
{
    auto* q = static_cast<unsigned char*>(p);
    if (n == 0) { return; }
    switch (v & 7u)
    {
    case 0: std::memset(q, 0xFF, n); break;
    case 1: std::memset(q, 0, n); q[n - 1] = 0x80; break;
    case 2: std::memset(q, 0xFF, n); q[n - 1] = 0x7F; break;
    case 3: std::memset(q, 0, n); q[n - 1] = 0x7F; if (n > 1) { q[n - 2] = (n == 8) ? 0xF0 : 0x80; } break;
    case 4: std::memset(q, 0, n); q[n - 1] = 0xFF; if (n > 1) { q[n - 2] = (n == 8) ? 0xF0 : 0x80; } break;
    case 5: std::memset(q, 0, n); q[n - 1] = 0x7F; if (n > 1) { q[n - 2] = 0x7F; } break;
    case 6: std::memset(q, 0, n); q[0] = 1; break;
    default:
        for (std::size_t i = 0; i < n; i++) { v = v * 1103515245u + 12345u; q[i] = static_cast<unsigned char>(v >> 16); }
        break;
    }
}

#include "types_cpp_includes.inc"

template <class T>
struct Ops
{
    // "T obj;" in memory that held something else before (a reused stack slot, a recycled heap block): default-initialisation
    // (no parentheses: nothing zero-fills the storage first) over a changing fill pattern
    static void* create()
    {
        static unsigned n = 0;
        static const unsigned char fill[4] = {0xA5, 0x00, 0xFF, 0x5A};
        void* m = ::operator new(sizeof(T));
        std::memset(m, fill[n++ & 3u], sizeof(T));
        return new (m) T;
    }
    static void destroy(void* p)
    {
        static_cast<T*>(p)->~T();
        ::operator delete(p);
    }
    static int   ser(const void* p, std::uint8_t* b, std::size_t cap, std::size_t* produced)
    {
        auto r = serialize(*static_cast<const T*>(p), nunavut::support::bitspan(b, cap));
        if (r) { *produced = r.value(); return 0; }
        return -static_cast<int>(r.error());
    }
    static int des(void* p, const std::uint8_t* b, std::size_t len, std::size_t* consumed)
    {
        auto r = deserialize(*static_cast<T*>(p), nunavut::support::const_bitspan(b, len));
        if (r) { *consumed = r.value(); return 0; }
        return -static_cast<int>(r.error());
    }
    static void  assign(void* d, const void* s) { *static_cast<T*>(d) = *static_cast<const T*>(s); }
    static void  move_assign(void* d, void* s) { *static_cast<T*>(d) = std::move(*static_cast<T*>(s)); }
    static void* clone(const void* s)
    {
        void* m = ::operator new(sizeof(T));
        std::memset(m, 0xA5, sizeof(T));
        return new (m) T(*static_cast<const T*>(s));
    }
    static void  swap(void* a, void* b) { using std::swap; swap(*static_cast<T*>(a), *static_cast<T*>(b)); }
    static vt_t  make(const char* name, void (*corrupt)(void*, unsigned, unsigned), unsigned n_corrupt,
                      void (*scribble)(void*, unsigned, unsigned), unsigned n_scribble)
    {
        return vt_t{name, T::_traits_::ExtentBytes, T::_traits_::SerializationBufferSizeBytes, create, destroy, ser, des, assign,
                    move_assign, clone, swap, corrupt ? corrupt : no_corrupt, n_corrupt, scribble ? scribble : no_corrupt, n_scribble};
    }
};

#include "types_cpp.inc"

static const std::size_t N_TYPES = sizeof(TYPES) / sizeof(TYPES[0]);
static const int         K_SLOTS = 4;

enum { ST_FRESH = 0, ST_VALID = 1, ST_FAILED = 2, ST_CORRUPT = 3, ST_MOVED_FROM = 4 };
struct slot_t { void* obj; int state; };

static std::vector<std::vector<slot_t>> SLOTS;
static unsigned long n_scribbled, n_ops, n_des_ok, n_des_err, n_ser_ok, n_ser_err, n_reused, n_after_failed, n_into_corrupt, n_corrupt_ser, n_small_cap,
    n_copy, n_move, n_reconstruct, n_selfassign, n_swap, n_into_moved_from, n_ser_after_failed;
static unsigned long err_hist[16];
static long          op_index = -1;

static bool documented(int rc) { return rc == 0 || rc == -3 || rc == -10 || rc == -11 || rc == -12; }

static void fail(const char* what, const vt_t* t, long a, long b)
{
    std::printf("INVARIANT %s op=%ld type=%s a=%ld b=%ld\n", what, op_index, t ? t->name : "?", a, b);
    std::fflush(stdout);
    std::_Exit(3);
}

// A zero-size region is a pointer no byte of which may be touched: the allocator hands out one usable byte for malloc(0), so that
// byte is poisoned by hand (and unpoisoned before the region is freed).
extern "C" void __asan_poison_memory_region(void const volatile* addr, std::size_t size);
extern "C" void __asan_unpoison_memory_region(void const volatile* addr, std::size_t size);
static std::uint8_t* alloc_exact(std::size_t len)
{
    auto* p = static_cast<std::uint8_t*>(std::malloc(len ? len : 1));
    if (p != nullptr && len == 0) { __asan_poison_memory_region(p, 1); }
    return p;
}
static void free_exact(std::uint8_t* p, std::size_t len)
{
    if (p != nullptr && len == 0) { __asan_unpoison_memory_region(p, 1); }
    std::free(p);
}

static std::uint8_t* exact_copy(const std::uint8_t* src, std::size_t len, bool null_if_empty)
{
    if (len == 0 && null_if_empty) { return nullptr; }
    auto* p = alloc_exact(len);
    if (len) { std::memcpy(p, src, len); }
    return p;
}

static void compare_values(const vt_t* t, const void* a, const void* b, const char* what)
{
    const std::size_t cap = t->bufsize;
    auto*             o1  = static_cast<std::uint8_t*>(std::malloc(cap ? cap : 1));
    auto*             o2  = static_cast<std::uint8_t*>(std::malloc(cap ? cap : 1));
    std::size_t       s1 = 0, s2 = 0;
    const int         r1 = t->ser(a, o1, cap, &s1);
    const int         r2 = t->ser(b, o2, cap, &s2);
    if (!documented(r1)) { fail("ser-undocumented-return-code", t, r1, 0); }
    if (r1 != r2) { fail(what, t, r1, r2); }
    if (r1 == 0 && (s1 != s2 || std::memcmp(o1, o2, s1) != 0)) { fail(what, t, static_cast<long>(s1), static_cast<long>(s2)); }
    if (r1 == 0 && s1 > cap) { fail("ser-size-exceeds-capacity", t, static_cast<long>(s1), static_cast<long>(cap)); }
    std::free(o1);
    std::free(o2);
}

// The heap as seen by the generated code is bounded: while a decode runs, no single allocation may be larger than anything the
// destination type could legitimately hold (a generous multiple of the extent of the type being decoded). An allocation sized by
// a length taken from the wire before it is validated exceeds it.
static volatile std::size_t g_largest_alloc_in_codec = 0;
static volatile int         g_in_codec               = 0;
static std::size_t          g_alloc_limit            = 0;
static void alloc_hook(const volatile void*, std::size_t size)
{
    if (g_in_codec && size > g_largest_alloc_in_codec) { g_largest_alloc_in_codec = size; }
}
static void free_hook(const volatile void*) {}
extern "C" int __sanitizer_install_malloc_and_free_hooks(void (*)(const volatile void*, std::size_t), void (*)(const volatile void*));

static void do_des(const vt_t* t, slot_t* s, const std::uint8_t* bytes, std::size_t len, bool null_if_empty)
{
    std::uint8_t* buf      = exact_copy(bytes, len, null_if_empty);
    std::size_t   consumed = 0;
    const int     prior    = s->state;
    g_largest_alloc_in_codec = 0;
    g_in_codec               = 1;
    const int     rc       = t->des(s->obj, buf, len, &consumed);
    g_in_codec             = 0;
    g_alloc_limit = t->extent * 64u + 65536u;
    if (g_largest_alloc_in_codec > g_alloc_limit)
    {
        fail("des-allocation-larger-than-the-type-can-hold", t, static_cast<long>(g_largest_alloc_in_codec), static_cast<long>(g_alloc_limit));
    }
    if (!documented(rc)) { fail("des-undocumented-return-code", t, rc, 0); }
    if (rc == 0 && consumed > len) { fail("des-consumed-more-than-supplied", t, static_cast<long>(consumed), static_cast<long>(len)); }
    void*         fresh     = t->create();
    std::uint8_t* buf2      = exact_copy(bytes, len, null_if_empty);
    std::size_t   consumed2 = 0;
    const int     rc2       = t->des(fresh, buf2, len, &consumed2);
    if (rc != rc2) { fail("des-return-code-depends-on-prior-state", t, rc, rc2); }
    if (rc == 0)
    {
        if (consumed != consumed2) { fail("des-consumed-size-depends-on-prior-state", t, static_cast<long>(consumed), static_cast<long>(consumed2)); }
        compare_values(t, s->obj, fresh, "decoded-value-depends-on-prior-state");
        n_des_ok++;
    }
    else
    {
        n_des_err++;
        err_hist[(-rc) & 15]++;
    }
    if (prior == ST_VALID) { n_reused++; }
    if (prior == ST_FAILED) { n_after_failed++; }
    if (prior == ST_CORRUPT) { n_into_corrupt++; }
    if (prior == ST_MOVED_FROM) { n_into_moved_from++; }
    t->destroy(fresh);
    free_exact(buf, len);
    free_exact(buf2, len);
    s->state = (rc == 0) ? ST_VALID : ST_FAILED;
}

static void do_ser(const vt_t* t, slot_t* s, std::uint32_t cap_arg)
{
    std::size_t cap = cap_arg;
    if (cap_arg == 0xFFFFFFFFu) { cap = t->bufsize; }
    if (cap_arg == 0xFFFFFFFEu) { cap = t->bufsize + 1; }
    if (cap_arg == 0xFFFFFFFDu) { cap = t->bufsize ? t->bufsize - 1 : 0; }
    if (cap_arg >= 0xFFFFFFF0u && cap_arg <= 0xFFFFFFFCu) { /* bufsize - 2 ... bufsize - 14 */
        const unsigned less = 0xFFFFFFFEu - cap_arg;
        cap = (t->bufsize > less) ? t->bufsize - less : 0;
    }
    auto*       buf      = alloc_exact(cap);
    std::size_t produced = 0;
    // a live C++ object is always serialisable-or-error, whatever happened to it before
    const int rc = t->ser(s->obj, buf, cap, &produced);
    if (!documented(rc)) { fail("ser-undocumented-return-code", t, rc, 0); }
    if (rc == 0 && produced > cap) { fail("ser-size-exceeds-capacity", t, static_cast<long>(produced), static_cast<long>(cap)); }
    if (s->state == ST_CORRUPT)
    {
        n_corrupt_ser++;
        if (rc == 0) { fail("ser-accepts-array-longer-than-capacity", t, 0, 0); }
    }
    if (s->state == ST_FAILED) { n_ser_after_failed++; }
    if (cap < t->bufsize) { n_small_cap++; }
    if (rc == 0) { n_ser_ok++; } else { n_ser_err++; err_hist[(-rc) & 15]++; }
    free_exact(buf, cap);
}

int main(int argc, char** argv)
{
    if (argc < 2) { return 2; }
    std::FILE* f = std::fopen(argv[1], "rb");
    if (!f) { return 2; }
    std::fseek(f, 0, SEEK_END);
    long total = std::ftell(f);
    std::fseek(f, 0, SEEK_SET);
    auto* script = static_cast<std::uint8_t*>(std::malloc(static_cast<std::size_t>(total) + 1));
    if (std::fread(script, 1, static_cast<std::size_t>(total), f) != static_cast<std::size_t>(total)) { return 2; }
    std::fclose(f);
    if (total < 4 || std::memcmp(script, "NVS1", 4) != 0) { return 2; }
    SLOTS.resize(N_TYPES);
    __sanitizer_install_malloc_and_free_hooks(alloc_hook, free_hook);
    for (std::size_t i = 0; i < N_TYPES; i++)
    {
        for (int k = 0; k < K_SLOTS; k++) { SLOTS[i].push_back(slot_t{TYPES[i].create(), ST_FRESH}); }
    }
    long pos = 4;
    while (pos + 12 <= total)
    {
        const std::uint8_t  op = script[pos];
        const std::uint16_t ti = static_cast<std::uint16_t>(script[pos + 1] | (script[pos + 2] << 8));
        const std::uint8_t  sl = script[pos + 3];
        std::uint32_t       arg, len;
        std::memcpy(&arg, script + pos + 4, 4);
        std::memcpy(&len, script + pos + 8, 4);
        pos += 12;
        if (pos + static_cast<long>(len) > total) { return 2; }
        const std::uint8_t* bytes = script + pos;
        pos += len;
        op_index++;
        n_ops++;
        const vt_t* t = &TYPES[ti % N_TYPES];
        slot_t*     s = &SLOTS[ti % N_TYPES][sl % K_SLOTS];
        slot_t*     o = &SLOTS[ti % N_TYPES][arg % K_SLOTS];
        switch (op)
        {
        case 1:
        case 8: /* destroy + construct */
            t->destroy(s->obj);
            s->obj   = t->create();
            s->state = ST_FRESH;
            n_reconstruct++;
            break;
        case 2: do_des(t, s, bytes, len, (arg & 1u) != 0); break;
        case 3: do_ser(t, s, arg); break;
        case 12: /* sweep: the object as it is, serialised into a buffer of every size from 0 to one more than advertised */
            for (unsigned c12 = 0; c12 <= (unsigned) t->bufsize + 1u && c12 < 4096u; ++c12) { do_ser(t, s, c12); }
            break;
        case 4: /* "poison" in C++: overwrite by a value from elsewhere (copy of a clone of another slot) */
        case 6:
            if (o != s)
            {
                void* c = t->clone(o->obj);
                compare_values(t, c, o->obj, "copy-construction-changes-value");
                t->assign(s->obj, c);
                compare_values(t, s->obj, o->obj, "copy-assignment-changes-value");
                t->destroy(c);
                s->state = o->state;
                n_copy++;
            }
            break;
        case 11:
            if (t->n_scribble > 0 && (s->state == ST_VALID || s->state == ST_FRESH || s->state == ST_FAILED))
            {
                t->scribble(s->obj, (arg >> 16) & 0xFFFFu, arg & 0xFFFFu);
                n_scribbled++;
            }
            break;
        case 5:
            if (t->n_corrupt > 0 && (s->state == ST_VALID || s->state == ST_FRESH))
            {
                t->corrupt(s->obj, (arg >> 16) & 0xFFFFu, arg & 0xFFFFu);
                s->state = ST_CORRUPT;
            }
            break;
        case 7:
            if (o != s)
            {
                void* before = t->clone(o->obj);
                t->move_assign(s->obj, o->obj);
                compare_values(t, s->obj, before, "move-assignment-changes-value");
                t->destroy(before);
                s->state = o->state;
                o->state = ST_MOVED_FROM; /* valid but unspecified: may be decoded into, serialised-or-error, destroyed */
                n_move++;
            }
            break;
        case 9:
        {
            void* before = t->clone(s->obj);
            t->assign(s->obj, s->obj);
            compare_values(t, s->obj, before, "self-assignment-changes-value");
            t->destroy(before);
            n_selfassign++;
            break;
        }
        case 10:
            if (o != s)
            {
                void* a = t->clone(s->obj);
                void* b = t->clone(o->obj);
                t->swap(s->obj, o->obj);
                compare_values(t, s->obj, b, "swap-changes-value");
                compare_values(t, o->obj, a, "swap-changes-value");
                t->destroy(a);
                t->destroy(b);
                std::swap(s->state, o->state);
                n_swap++;
            }
            break;
        default: break;
        }
    }
    for (std::size_t i = 0; i < N_TYPES; i++) { for (int k = 0; k < K_SLOTS; k++) { TYPES[i].destroy(SLOTS[i][static_cast<std::size_t>(k)].obj); } }
    SLOTS.clear();
    SLOTS.shrink_to_fit();
    std::free(script);
    std::printf("STATS {\"ops\":%lu,\"des_ok\":%lu,\"des_err\":%lu,\"ser_ok\":%lu,\"ser_err\":%lu,\"decode_into_used_slot\":%lu,"
                "\"decode_after_failed_decode\":%lu,\"decode_into_corrupted_slot\":%lu,\"decode_into_moved_from\":%lu,\"ser_of_corrupted\":%lu,"
                "\"ser_after_failed_decode\":%lu,\"ser_small_cap\":%lu,\"copy\":%lu,\"move\":%lu,\"reconstruct\":%lu,\"self_assign\":%lu,\"swap\":%lu,"
                "\"err_bad_array_length\":%lu,\"err_bad_union_tag\":%lu,\"err_bad_delimiter_header\":%lu,\"err_buffer_too_small\":%lu,\"scalar_leaf_scribbled\":%lu}\n",
                n_ops, n_des_ok, n_des_err, n_ser_ok, n_ser_err, n_reused, n_after_failed, n_into_corrupt, n_into_moved_from, n_corrupt_ser,
                n_ser_after_failed, n_small_cap, n_copy, n_move, n_reconstruct, n_selfassign, n_swap, err_hist[10], err_hist[11], err_hist[12],
                err_hist[3], n_scribbled);
    return 0;
}
