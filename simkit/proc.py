"""
Process model (DESIGN 1.2): one simulated ``nnvg`` invocation = one fork()ed child of a warm parent.

A crash is os._exit(137) from inside a seam in the child; events are streamed over a pipe as they happen so
the parent keeps the event log up to the instant of death.
"""
import io
import json
import os
import select
import signal
import sys
import time
import traceback
import typing

from .seams import CRASH_STATUS, SeamMissing, Seams, dump_event


class HarnessError(Exception):
    """Anything that is the simulator's fault or an unusable environment: exit 2, never a VIOLATION."""


def warm_imports() -> None:
    """Import everything nunavut needs before the first fork, so no child ever writes or reads bytecode late."""
    sys.dont_write_bytecode = True
    import nunavut  # noqa
    import nunavut.cli  # noqa
    import nunavut.cli.runners  # noqa
    import nunavut.jinja  # noqa
    import nunavut.jinja.jinja2  # noqa
    import nunavut.jinja.jinja2.ext  # noqa
    import nunavut.lang  # noqa
    import nunavut.lang.c  # noqa
    import nunavut.lang.cpp  # noqa
    import nunavut.lang.py  # noqa
    import nunavut.lang.html  # noqa
    import nunavut.lang.js  # noqa
    import pydsdl  # noqa
    import yaml  # noqa
    import gzip, pickle, base64, subprocess, shutil, logging, argparse, textwrap, datetime  # noqa


def _child_main(inv: dict, wfd: int) -> None:
    def sink(ev: list) -> None:
        os.write(wfd, dump_event(ev))

    out = io.StringIO()
    err = io.StringIO()
    status = "harness"
    exc_msg = ""
    seams = None
    session_results = None  # type: typing.Any
    after_hooks = []  # type: typing.List[typing.Callable[[], None]]
    try:
        for k in inv.get("env_unset", []):
            os.environ.pop(k, None)
        for k, v in inv.get("env", {}).items():
            os.environ[k] = v
        import tempfile

        tempfile.tempdir = None  # (cached by the warm parent: the child's TMPDIR decides again, as in a new process)
        if inv.get("sys_path_prepend"):
            # entries a wrapper, an IDE or another project's PYTHONPATH put in front of the interpreter's search path
            import importlib

            for extra in reversed(inv["sys_path_prepend"]):
                sys.path.insert(0, extra)
            importlib.invalidate_caches()
        os.chdir(inv["cwd"])
        os.umask(inv.get("umask", 0o022))
        seams = Seams(inv, sink=sink)
        seams.install()
        for hook in inv.get("inrun", []):
            # in-run invariants: "package.module:function" called with the seams object inside the child
            import importlib

            mod_name, fn_name = hook.split(":")
            after = getattr(importlib.import_module(mod_name), fn_name)(seams)
            if callable(after):
                after_hooks.append(after)  # (a hook may hand back what it wants to do once the invocation is over)
        sys.stdout = out
        sys.stderr = err
        for pre_argv in inv.get("prelude", []):
            # "process age": earlier generator runs in the same interpreter; their outcome is not judged
            sys.argv = list(pre_argv)
            try:
                import nunavut.cli

                nunavut.cli.main()
            except BaseException:  # pylint: disable=broad-except
                pass
            import logging

            for h in list(logging.getLogger().handlers):
                logging.getLogger().removeHandler(h)
            seams.record("prelude-done", None, None)
            out.seek(0)
            out.truncate()
            err.seek(0)
            err.truncate()
        sys.argv = list(inv["argv"])
        try:
            mode = inv.get("entry", "cli")
            if mode == "cli":
                import nunavut.cli

                rc = nunavut.cli.main()
                status = "ok" if not rc else "exit:%r" % (rc,)
            elif mode == "api_session":
                from . import apisession

                session_results = apisession.run(inv["session"], seams)
                status = "ok"
            else:
                raise HarnessError("unknown entry %r" % mode)
        except SystemExit as ex:
            status = "ok" if ex.code in (0, None) else "exit:%r" % (ex.code,)
        except SeamMissing:
            raise
        except BaseException as ex:  # pylint: disable=broad-except
            status = "exc:%s" % type(ex).__name__
            exc_msg = "%s\n%s" % (ex, traceback.format_exc(limit=12))
        for after in after_hooks:
            after()
    except SeamMissing as ex:
        status = "harness"
        exc_msg = "seam missing: %s" % ex
    except BaseException as ex:  # pylint: disable=broad-except
        status = "harness"
        exc_msg = "%s: %s\n%s" % (type(ex).__name__, ex, traceback.format_exc(limit=12))
    finally:
        if seams is not None:
            seams.enabled = False
        sys.stdout = sys.__stdout__
        sys.stderr = sys.__stderr__
    final = {
        "final": True,
        "status": status,
        "exc_msg": exc_msg[-4000:],
        "stdout": out.getvalue(),
        "stderr": err.getvalue()[-4000:],
        "mut_count": seams.mut_count if seams else 0,
        "wopen_paths": seams.wopen_paths if seams else [],
        "writes_per_file": [seams.writes_per_file.get(i, 0) for i in range(seams.wopen_count)] if seams else [],
        "fault_fired": seams.fault_fired if seams else None,
        "probes": seams.probes if seams else {},
        "clock_end": seams.clock.now if seams and seams.clock else None,
        "clock_ticks": seams.clock.ticks if seams and seams.clock else 0,
    }
    if session_results is not None:
        final["session"] = session_results
    data = (json.dumps(final) + "\n").encode("utf-8")
    view = memoryview(data)
    while view:
        n = os.write(wfd, view)
        view = view[n:]


def run_invocation(inv: dict, timeout_s: float = 120.0) -> dict:
    """Fork, run one invocation under the seams, return {'status', 'events', 'stdout', ...}."""
    rfd, wfd = os.pipe()
    sys.stdout.flush()
    sys.stderr.flush()
    pid = os.fork()
    if pid == 0:
        code = 0
        try:
            os.close(rfd)
            _child_main(inv, wfd)
        except BaseException:  # pylint: disable=broad-except
            code = 3
        finally:
            os._exit(code)
    os.close(wfd)
    chunks = []
    deadline = time.monotonic() + timeout_s
    timed_out = False
    while True:
        left = deadline - time.monotonic()
        if left <= 0:
            timed_out = True
            break
        r, _, _ = select.select([rfd], [], [], min(left, 5.0))
        if not r:
            continue
        b = os.read(rfd, 1 << 16)
        if not b:
            break
        chunks.append(b)
    os.close(rfd)
    if timed_out:
        try:
            os.kill(pid, signal.SIGKILL)
        except ProcessLookupError:
            pass
    _, wstatus = os.waitpid(pid, 0)
    return _parse_report(b"".join(chunks), timed_out, wstatus)


def _parse_report(blob: bytes, timed_out: bool, wstatus: int) -> dict:
    events = []
    final = None
    for line in blob.split(b"\n"):
        if not line:
            continue
        try:
            rec = json.loads(line)
        except ValueError:
            continue  # a line torn by the crash
        if isinstance(rec, dict) and rec.get("final"):
            final = rec
        else:
            events.append(rec)
    res = {"events": events}  # type: typing.Dict[str, typing.Any]
    if timed_out:
        # wall-clock watchdog: a machine too loaded to finish an invocation is not evidence about nunavut
        raise HarnessError("invocation killed by the wall-clock watchdog")
    elif final is not None:
        res.update(final)
    elif os.WIFEXITED(wstatus) and os.WEXITSTATUS(wstatus) == CRASH_STATUS:
        res["status"] = "crash"
        fired = [e for e in events if e[1] == "fault"]
        res["fault_fired"] = fired[-1][3] if fired else "crash"
    else:
        res["status"] = "harness"
        res["exc_msg"] = "child ended without a report (wait status %r)" % (wstatus,)
    res.setdefault("stdout", "")
    res.setdefault("stderr", "")
    res.setdefault("exc_msg", "")
    res.setdefault("fault_fired", None)
    res.setdefault("probes", {})
    res.setdefault("mut_count", sum(1 for e in events if e[1] in ("open-w",) or e[1].startswith(("os.", "shutil."))))
    res.setdefault("wopen_paths", [])
    res.setdefault("writes_per_file", [])
    if res["status"] == "harness":
        raise HarnessError(res.get("exc_msg", "child failed"))
    return res


def run_invocation_fresh(inv: dict, hash_seed_value: int, timeout_s: float = 180.0, start_env: typing.Optional[dict] = None, py_flags: typing.Optional[typing.List[str]] = None) -> dict:
    """The same invocation in a fresh interpreter started with the given PYTHONHASHSEED (cold process).
    ``start_env`` is in the environment when the interpreter starts (locale and encoding are decided then);
    ``py_flags`` are interpreter options (-X ..., -B) given on its command line."""
    import subprocess

    env = dict(os.environ)
    for k in ("LC_ALL", "LANG", "LC_CTYPE", "PYTHONUTF8", "PYTHONCOERCECLOCALE", "PYTHONIOENCODING"):
        if start_env is not None:
            env.pop(k, None)
    env.update(start_env or {})
    env["PYTHONHASHSEED"] = str(hash_seed_value)
    env["PYTHONDONTWRITEBYTECODE"] = "1"
    here = os.path.dirname(os.path.dirname(os.path.abspath(__file__)))
    env["PYTHONPATH"] = here
    try:
        p = subprocess.run(
            [sys.executable] + list(py_flags or []) + ["-m", "simkit.onerun"],
            input=json.dumps(inv).encode("utf-8"),
            stdout=subprocess.PIPE,
            stderr=subprocess.PIPE,
            cwd=here,
            env=env,
            timeout=timeout_s,
            check=False,
        )
    except subprocess.TimeoutExpired:
        return _parse_report(b"", True, 0)
    try:
        return _parse_report(p.stdout, False, (p.returncode & 0xFF) << 8 if p.returncode >= 0 else 9)
    except HarnessError as ex:
        raise HarnessError("%s | stderr: %s" % (ex, p.stderr.decode("utf-8", "replace")[-1500:]))


def run_in_fork(fn: typing.Callable[[], typing.Any], timeout_s: float = 600.0) -> typing.Any:
    """Run fn() in a forked child and return its JSON-serialisable result (isolation of one case from the next)."""
    rfd, wfd = os.pipe()
    sys.stdout.flush()
    sys.stderr.flush()
    pid = os.fork()
    if pid == 0:
        code = 0
        try:
            os.close(rfd)
            try:
                payload = {"ok": fn()}
            except HarnessError as ex:
                payload = {"harness": str(ex)}
            except BaseException as ex:  # pylint: disable=broad-except
                payload = {"harness": "%s: %s\n%s" % (type(ex).__name__, ex, traceback.format_exc(limit=20))}
            data = json.dumps(payload).encode("utf-8")
            view = memoryview(data)
            while view:
                n = os.write(wfd, view)
                view = view[n:]
        except BaseException:  # pylint: disable=broad-except
            code = 3
        finally:
            os._exit(code)
    os.close(wfd)
    chunks = []
    deadline = time.monotonic() + timeout_s
    timed_out = False
    while True:
        left = deadline - time.monotonic()
        if left <= 0:
            timed_out = True
            break
        r, _, _ = select.select([rfd], [], [], min(left, 5.0))
        if not r:
            continue
        b = os.read(rfd, 1 << 16)
        if not b:
            break
        chunks.append(b)
    os.close(rfd)
    if timed_out:
        try:
            os.kill(pid, signal.SIGKILL)
        except ProcessLookupError:
            pass
    os.waitpid(pid, 0)
    if timed_out:
        raise HarnessError("case timed out after %.0fs" % timeout_s)
    try:
        payload = json.loads(b"".join(chunks))
    except ValueError:
        raise HarnessError("case child died without a report")
    if "harness" in payload:
        raise HarnessError(payload["harness"])
    return payload["ok"]
