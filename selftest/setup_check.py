"""MANIFEST.setup_cmd: verify, offline, that everything the checks need is present. Builds nothing persistent."""
import os
import shutil
import sys

problems = []
if sys.version_info < (3, 8):
    problems.append("python too old")
src = os.environ.get("NUNAVUT_SRC", "/repo/src")
sys.path.insert(0, src)
try:
    import nunavut  # noqa
    import pydsdl  # noqa
    import yaml  # noqa
except Exception as ex:  # pylint: disable=broad-except
    problems.append("import failed: %r" % (ex,))
for tool in ("clang", "clang++"):
    if shutil.which(tool) is None:
        problems.append("%s not found (needed by C04)" % tool)
if not hasattr(sys, "addaudithook"):
    problems.append("sys.addaudithook missing")
if problems:
    print("SETUP PROBLEMS:\n  " + "\n  ".join(problems))
    sys.exit(1)
print("setup ok: python %s, nunavut from %s, pydsdl %s" % (sys.version.split()[0], os.path.dirname(nunavut.__file__), pydsdl.__version__))
