"""
C08 - listing and dry-run modes tell the build system the truth (DESIGN section 2, C08).

For one option set: the real run in a pristine directory (recorded by the seam), then --list-outputs,
--list-inputs and --dry-run on the empty directory, under a whole-disk EROFS fault, and again on a dirty
directory (leftovers of other runs, read-only and foreign files), every listing under a permuted directory
enumeration order.
"""
import hashlib
import os
import typing

from simkit import dsdlgen, nnvg, proc, snapshot, usertpl
from simkit.rng import Rng
from simkit.seams import is_mutating

PROP = "C08"
LEVEL = "exploration"
RULE = (
    "A case is one seeded (DSDL namespace set, option set) pair - language x --generate-support x --omit-serialization-"
    "support x --generate-namespace-types x user --templates/--support-templates directories x extension/namespace-stem "
    "overrides x external post-processor program x file mode x lookup dependencies x path spellings - taken through: real run in a pristine directory, the three "
    "listing/dry-run modes on the empty directory, the same under a whole-disk EROFS fault, a seeded dirtying history "
    "(other runs, chmod, foreign files), the three modes again and a real run on the dirty directory. Distinct = digest "
    "of (option set, dirtying op kinds); non-trivial = the real run succeeded and at least one listing mode was compared."
)
STATE_MEASURE = "digest of the whole sandbox (inputs, templates, outputs: paths, sizes, modes, mtimes, hashes) at each listing step"
COMPONENTS = {
    "real": ["nunavut (CLI, runners, generators, loaders)", "pydsdl", "vendored Jinja2", "PyYAML", "CPython 3.12", "tmpfs file system"],
    "stub": ["clock (frozen)", "directory enumeration order (seeded permutation per call)", "POSIX owner permission check", "whole-disk EROFS fault at every mutating audit event", "PYTHONHASHSEED chosen by the scheduler"],
}  # fmt: skip
ASSUMPTIONS = [
    "CPython audit events (open, os.mkdir, os.chmod, os.remove, os.rename, shutil.*, ...) are the complete set of ways nunavut can touch the disk",
    "'influences the output' is under-approximated for --list-inputs by: every *.j2 file the real run opened for reading, plus every DSDL file defining a root-namespace type or a type transitively referenced by one (computed with pydsdl by the checker)",
    "option sets for which the real run fails are outside the property and skipped (counted)",
]

LANGS = ["c", "cpp", "py", "html"]


def n_cases(tier: str) -> int:
    return 220 if tier == "quick" else 5000


def budget_s(tier: str) -> float:
    return 170.0 if tier == "quick" else 1500.0


def case_timeout_s(tier: str) -> float:
    return 300.0


def directed_cases(seed: int, tier: str) -> typing.List[dict]:
    out = []
    combos = [
        ("only-omit", {"gen_support": "only", "omit_ser": True}),
        ("never", {"gen_support": "never"}),
        ("asneeded-omit", {"omit_ser": True}),
        ("nstypes", {"ns_types": True}),
        ("user-support", {"support_templates": "override"}),
        ("user-templates", {"templates": "by_kind", "ns_types": True}),
        ("user-templates-same-names", {"templates": "dup_names"}),
        ("lookup-deps", {"want_lookup": True}),
        ("ext-stem", {"ext": ".inc", "ns_stem": "nsfile", "ns_types": True}),
        ("empty-root", {"root": "emptyroot", "lookups": []}),
        ("verbose", {"verbosity": "-v"}),
        ("templates-with-syntax-error-after-earlier-run", {"templates": "broken_syntax"}),
        ("user-support-read-refused", {"support_templates": "override", "support_read_fault": "EACCES"}),
        ("config-file-extension-stem", {"cfg_doc": {"extension": ".gen.h", "namespace_file_stem": "pkg"}, "ns_types": True, "templates": "by_kind"}),
        ("config-file-support-namespace", {"cfg_doc": {"support_namespace": "acme.support"}}),
        ("very-verbose", {"verbosity": "-vv", "ns_types": True}),
    ]
    # the listing as an API caller gets it (what --list-inputs prints is generator.get_templates()): a template PACKAGE of the
    # user's own, with templates in sub-directories that are reached only through extends / include / import
    for lang in ["c", "py"]:
        out.append({"label": "directed-api-template-package-%s" % lang, "dsdl_seed": [seed, PROP, "directed", 0], "lang": lang, "mode": "api_package"})
    for lang in ["c", "cpp", "py"]:
        for name, o in combos:
            out.append({"label": "directed-%s-%s" % (name, lang), "dsdl_seed": [seed, PROP, "directed", len(out) % 3], "lang": lang, "fixed_opts": o})
    return out


def gen_case(seed: int, index: int, tier: str) -> dict:
    return {"dsdl_seed": [seed, PROP, "dsdl", index // 2], "ops_seed": [seed, PROP, "ops", index], "tier": tier}


def _gen_opts(r: Rng, ds: dsdlgen.DsdlSet, lang: typing.Optional[str], fixed: typing.Optional[dict]) -> dict:
    lang = lang or r.weighted([("c", 4), ("cpp", 3), ("py", 3), ("html", 1)])
    fixed = dict(fixed or {})
    roots = list(ds.roots)
    if fixed.pop("want_lookup", False):
        with_deps = [x for x in roots if ds.root_deps(x)]
        root = with_deps[0] if with_deps else r.choice(roots)
    else:
        root = r.choice(roots)
    o = {"lang": lang, "root": root, "lookups": ds.root_deps(root)}  # type: typing.Dict[str, typing.Any]
    if r.chance(1, 4):
        o["lookups"] = [x for x in roots if x != root]
    if r.chance(1, 12):
        # a root namespace without a single data type (a placeholder, a vendor folder not yet populated)
        o["root"], o["lookups"] = "emptyroot", []
    o["outdir_spelling"] = r.choice(["abs", "rel", "rel_dot", "abs_slash", "rel_slash", "symlink_dotdot", "symlink_dotdot_rel"])
    o["in_spelling"] = r.choice(["abs", "abs", "rel"])
    if o["lookups"] and r.chance(1, 4):
        o["lookups_via_env"] = True  # DSDL_INCLUDE_PATH instead of -I
    if not fixed:
        if r.chance(1, 3):
            o["omit_ser"] = True
        gs = r.weighted([(None, 4), ("always", 1), ("never", 2), ("as-needed", 1), ("only", 2)])
        if gs == "always" and o.get("omit_ser"):
            gs = "only"
        if gs:
            o["gen_support"] = gs
        if r.chance(1, 3):
            o["ns_types"] = True
        names = [n for n in sorted(usertpl.SETS) if usertpl.usable_for(lang, n) and n not in ("crlf", "blanky")]
        # the built-in c and c++ template sets have no Namespace.j2: namespace files need user templates there
        if names and (r.chance(1, 4) or (o.get("ns_types") and lang in ("c", "cpp") and r.chance(4, 5))):
            o["templates"] = r.choice(names)
        if r.chance(1, 4) and lang in usertpl.SUPPORT_NAME:
            o["support_templates"] = r.choice(sorted(usertpl.SUPPORT_SETS))
            if r.chance(1, 4):
                # the user's support template is there but cannot be read (EACCES / EIO) in every invocation of the case: the run
                # may fail (then there is nothing to compare), it may not quietly use a template the listing does not name
                o["support_read_fault"] = r.choice(["EACCES", "EIO"])
        if r.chance(1, 6) and lang in ("c", "cpp"):
            o["ext"] = r.choice([".h", ".hh", "hpp", ".inc"])
        if r.chance(1, 6):
            o["ns_stem"] = r.choice(["_ns", "index", "module", "nsfile"])
        if lang == "cpp" and r.chance(1, 4):
            o["std"] = r.choice(["c++14", "c++17", "c++17-pmr", "c++20"])
        if r.chance(1, 6):
            o["pp_trim"] = True
        if r.chance(1, 6):
            # an external post-processor program: listing and dry-run modes must not run it (it edits files)
            o["pp_prog"] = r.choice([True, "rename", "crlf"])
        if r.chance(1, 6) and lang in ("c", "cpp"):
            o["extra_support"] = r.choice([True, "readonly"])  # a plain (copied) header in the language's support package
        if r.chance(1, 6):
            o["file_mode"] = r.choice([0o444, 0o644, 0o600, 0o400])
        if r.chance(1, 5):
            # values that reach every mode only through a --configuration file (not through a command-line flag)
            doc = {}  # type: typing.Dict[str, typing.Any]
            if r.chance(1, 2):
                doc["extension"] = r.choice([".hxx", ".inc", ".gen.h"]) if lang in ("c", "cpp") else r.choice([".py", ".pyi"]) if lang == "py" else ".htm"
            if r.chance(1, 2):
                doc["namespace_file_stem"] = r.choice(["_nsfile", "pkg", "index_"])
            if r.chance(1, 2) and lang in ("c", "cpp", "py"):
                doc["support_namespace"] = r.choice(["acme.support", "sup", "nunavut.support.v2"])
            if doc:
                o["cfg_doc"] = doc
        if r.chance(1, 5):
            o["verbosity"] = r.choice(["-v", "-vv"])  # diagnostics are not part of the printed list (stdout is a data channel)
    o.update(fixed)
    if o.get("support_templates") and lang not in usertpl.SUPPORT_NAME:
        o.pop("support_templates")
    return o


def dsdl_closure(root_dir: str, lookup_dirs: typing.List[str]) -> typing.Tuple[typing.Set[str], typing.Set[str]]:
    """(files defining root-namespace types, files of types they transitively refer to) as real paths."""
    import pydsdl

    types = pydsdl.read_namespace(root_dir, lookup_dirs, allow_unregulated_fixed_port_id=True)
    root_files = {os.path.realpath(str(t.source_file_path)) for t in types}
    deps = set()  # type: typing.Set[str]
    seen = set()  # type: typing.Set[int]
    stack = list(types)
    while stack:
        t = stack.pop()
        if id(t) in seen:
            continue
        seen.add(id(t))
        for f in getattr(t, "fields", []):
            dt = f.data_type
            while isinstance(dt, pydsdl.ArrayType):
                dt = dt.element_type
            if isinstance(dt, pydsdl.CompositeType):
                deps.add(os.path.realpath(str(dt.source_file_path)))
                stack.append(dt)
    return root_files, deps - root_files


def _parse_listing(stdout: str, cwd: str) -> typing.List[str]:
    items = [x for x in stdout.split(";") if x.strip() != ""]
    # the file the kernel would reach through the printed spelling (symbolic links resolved before "..")
    return [os.path.realpath(os.path.join(cwd, x)) for x in items]


def _mutations(res: dict) -> typing.List[list]:
    out = []
    for e in res["events"]:
        kind, rel = e[1], e[2]
        if rel is None or not str(rel).startswith("@"):
            continue
        if is_mutating(kind) or kind == "eacces":
            out.append([kind, rel])
    return out


PKG_TEMPLATES = {
    "Any.j2": "{% extends 'layout/module.j2' %}{% block body %}{% from 'macros/fields.j2' import show %}{{ show(T) }}{% include 'parts/footer.j2' %}{% endblock %}\n",
    "Namespace.j2": "NS {{ T.full_name }}\n",
    "layout/module.j2": "MODULE {{ T.full_name }}\n{% block body %}{% endblock %}\n",
    "macros/fields.j2": "{% macro show(t) %}FIELDS {{ t.short_name }}{% endmacro %}\n",
    "parts/footer.j2": "FOOTER\n",
    "parts/deeper/unused.j2": "never used\n",
}


def _api_package_case(case: dict, ctx: dict) -> dict:
    """generator.get_templates() (the list --list-inputs prints) against the templates a real generate_all() opens, for a
    template package of the user's own whose templates sit in sub-directories."""
    import pathlib

    sandbox = os.path.join(ctx["scratch"], "disk")
    os.makedirs(sandbox)
    world = nnvg.World(sandbox)
    ds = dsdlgen.generate_valid(tuple(case["dsdl_seed"]), os.path.join(ctx["scratch"], "val"))
    dsdlgen.materialize_files(ds.files, ds.roots, world.in_dir)
    pkg_root = os.path.join(sandbox, "site")
    for rel, text in PKG_TEMPLATES.items():
        pth = os.path.join(pkg_root, "simtplpkg", "templates", rel)
        os.makedirs(os.path.dirname(pth), exist_ok=True)
        with open(pth, "w", encoding="utf-8") as f:
            f.write(text)
    for d in ("simtplpkg", "simtplpkg/templates"):
        open(os.path.join(pkg_root, d, "__init__.py"), "w").close()
    root = sorted(ds.roots)[0]

    def child() -> dict:
        import sys

        import pydsdl
        from nunavut import build_namespace_tree
        from nunavut.jinja import DSDLCodeGenerator
        from nunavut.lang import LanguageContextBuilder
        from simkit.seams import Seams

        sys.path.insert(0, pkg_root)
        events = []  # type: typing.List[list]
        seams = Seams({"sandbox": sandbox, "clock": dict(nnvg.FROZEN_CLOCK), "enum_seed": 5}, sink=events.append)
        seams.install()
        lctx = LanguageContextBuilder(include_experimental_languages=True).set_target_language(case["lang"]).create()
        types = pydsdl.read_namespace(os.path.join(world.in_dir, root), [os.path.join(world.in_dir, x) for x in ds.roots if x != root], allow_unregulated_fixed_port_id=True)
        ns = build_namespace_tree(types, os.path.join(world.in_dir, root), world.out_dir, lctx)
        gen = DSDLCodeGenerator(ns, package_name_for_templates="simtplpkg")
        listed = sorted(os.path.realpath(str(p)) for p in gen.get_templates())
        n0 = len(events)
        try:
            gen.generate_all(False, True)
            status = "ok"
        except Exception as ex:  # pylint: disable=broad-except
            status = "exc:%s: %s" % (type(ex).__name__, str(ex)[:200])
        seams.enabled = False
        opened = sorted({os.path.realpath(sandbox + e[2][1:]) for e in events[n0:] if e[1] == "open-r" and str(e[2]).startswith("@") and str(e[2]).endswith(".j2")})
        return {"status": status, "listed": listed, "opened": opened}

    res = proc.run_in_fork(child, timeout_s=240)
    violations = []
    if res["status"] == "ok":
        missing = sorted(set(res["opened"]) - set(res["listed"]))
        if missing:
            violations.append({"signature": "%s:list-inputs-missing:package-template-in-sub-directory" % PROP, "detail": {"entry": "api (generator.get_templates())", "missing": [os.path.relpath(m, sandbox) for m in missing[:6]], "lang": case["lang"]}})
    counters = {"ops": {"api_package": 1}, "faults_fired": {}, "probes": {"api_package_templates_opened": len(res["opened"])}, "status": {res["status"].split(":")[0]: 1}}
    return {
        "violations": violations,
        "executed": dict(case),
        "evaluations": 2,
        "nontrivial_keys": ["api-package-%s" % case["lang"]] if res["status"] == "ok" and len(res["opened"]) >= 3 else [],
        "states": [],
        "counters": counters,
        "sim_time_s": 0.0,
        "sample": {"mode": "api_package", "lang": case["lang"], "opened": len(res["opened"]), "listed": len(res["listed"])},
        "digest": hashlib.sha256(repr((res["status"], [os.path.relpath(x, sandbox) for x in res["opened"]], len(res["listed"]))).encode()).hexdigest()[:16],
    }


def run_case(case: dict, ctx: dict) -> dict:
    if case.get("mode") == "api_package":
        return _api_package_case(case, ctx)
    sandbox = os.path.join(ctx["scratch"], "disk")
    os.makedirs(sandbox)
    world = nnvg.World(sandbox, out_rel=(case.get("opts") or {}).get("out_rel") or ("build/gen/out" if Rng(PROP, "outrel", str(case.get("ops_seed", case.get("label")))).chance(1, 2) else "out"))
    stats = {}  # type: typing.Dict[str, typing.Any]
    counters = {"ops": {}, "faults_fired": {}, "probes": {}, "status": {}}  # type: typing.Dict[str, typing.Dict[str, int]]

    def bump(group: str, key: str, n: int = 1) -> None:
        counters[group][key] = counters[group].get(key, 0) + n

    if "dsdl" in case:
        roots, files = case["dsdl"]["roots"], case["dsdl"]["files"]
        if dsdlgen.validate(files, roots, os.path.join(ctx["scratch"], "val")) is not None:
            return {"violations": [], "evaluations": 0, "skipped": 1, "executed": case, "counters": counters}
        ds = None
    else:
        ds = dsdlgen.generate_valid(tuple(case["dsdl_seed"]), os.path.join(ctx["scratch"], "val"), stats=stats)
        roots, files = ds.roots, ds.files
    dsdlgen.materialize_files(files, roots, world.in_dir)
    os.makedirs(os.path.join(world.in_dir, "emptyroot"), exist_ok=True)
    tier = case.get("tier", ctx.get("tier", "quick"))
    r = Rng(*case["ops_seed"]) if "ops_seed" in case else Rng(PROP, "directed", case.get("label", ""))

    if "opts" in case:
        opts = dict(case["opts"])
        dirty = list(case.get("dirty", []))
        enum_seed = case.get("enum_seed", 1)
    else:
        assert ds is not None
        opts = _gen_opts(r.sub("opts"), ds, case.get("lang"), case.get("fixed_opts"))
        enum_seed = r.below(1 << 30)
        dirty = []
        rd = r.sub("dirty")
        for i in range(rd.between(1, 4)):
            k = rd.weighted([("generate", 5), ("chmod", 2), ("plant", 2)])
            if k == "generate":
                o2 = _gen_opts(rd.sub("o", i), ds, opts["lang"] if rd.chance(2, 3) else None, None)
                o2["root"] = opts["root"] if rd.chance(2, 3) else o2["root"]
                o2["lookups"] = ds.root_deps(o2["root"])
                o2["file_mode"] = rd.choice([0o444, 0o644, 0o400])
                dirty.append({"op": "generate", "opts": o2})
            elif k == "chmod":
                dirty.append({"op": "chmod", "pick": rd.below(1000), "mode": rd.choice([0o444, 0o000, 0o644])})
            else:
                dirty.append({"op": "plant", "pick": rd.below(1000), "content": "foreign\n", "mode": rd.choice([0o644, 0o444])})

    # plant the user template sets the option sets name
    tpl_used = {}  # type: typing.Dict[str, typing.Dict[str, str]]
    for o in [opts] + [d["opts"] for d in dirty if d["op"] == "generate"]:
        if o.get("templates") == "broken_syntax":
            # the user's templates were fine for an earlier run and have a syntax error now (an edit gone wrong)
            tpl_used["broken_syntax"] = dict(usertpl.SETS["by_kind"], **{k: v + "\n{% if %}\n" for k, v in usertpl.SETS["by_kind"].items() if k in ("StructureType.j2", "UnionType.j2", "DelimitedType.j2", "ServiceType.j2")})
        elif o.get("templates"):
            tpl_used[o["templates"]] = usertpl.SETS[o["templates"]]
        if o.get("support_templates"):
            name = "%s-%s" % (o["support_templates"], o["lang"])
            tpl_used[name] = usertpl.SUPPORT_SETS[o["support_templates"]](o["lang"])
    for name, tfiles in tpl_used.items():
        usertpl.plant(world.tpl_dir, name, tfiles)

    def real_opts(o: dict) -> dict:
        o = dict(o)
        if o.get("support_templates"):
            o["support_templates"] = "%s-%s" % (o["support_templates"], o["lang"])
        if o.get("verbosity"):
            o["extra_argv"] = list(o.get("extra_argv", [])) + [o["verbosity"]]
        if o.get("cfg_doc"):
            import yaml

            cfg_dir = os.path.join(world.sandbox, "cfg")
            os.makedirs(cfg_dir, exist_ok=True)
            cp = os.path.join(cfg_dir, "project-%s.yaml" % hashlib.sha256(repr(sorted(o["cfg_doc"].items())).encode()).hexdigest()[:8])
            if not os.path.exists(cp):
                with open(cp, "w", encoding="utf-8") as f:
                    yaml.safe_dump({"nunavut.lang.%s" % o["lang"]: o["cfg_doc"]}, f)
            o["configs"] = [cp]
            o.pop("cfg_doc")
        return o

    def env_plan(o: dict) -> dict:
        """the invocation plan entries that realise lookups given through DSDL_INCLUDE_PATH (and a refused read)"""
        plan_extra = {}  # type: typing.Dict[str, typing.Any]
        if o.get("support_read_fault") and o.get("support_templates"):
            plan_extra["read_faults"] = {"/%s/%s" % (o["support_templates"], n): o["support_read_fault"] for n in ("serialization.j2", "nunavut_support.j2")}
        if not o.get("lookups_via_env"):
            return plan_extra
        return dict(plan_extra, env={"DSDL_INCLUDE_PATH": os.pathsep.join(os.path.join(world.in_dir, x) for x in o.get("lookups", []))}, env_unset=[])

    def without_env_lookups(o: dict) -> dict:
        return dict(o, lookups=[]) if o.get("lookups_via_env") else o

    violations = []  # type: typing.List[dict]
    states = []  # type: typing.List[str]
    evaluations = 0
    compared = 0
    ref_cache = {}  # type: typing.Dict[str, dict]
    ev_digests = []  # type: typing.List[str]
    O = real_opts(opts)

    def violation(sig: str, detail: dict) -> None:
        violations.append({"signature": "%s:%s" % (PROP, sig), "detail": detail})

    def flags_of(o: dict) -> str:
        return ",".join("%s=%s" % (k, o[k]) for k in ("gen_support", "omit_ser") if o.get(k))

    opts["out_rel"] = os.path.relpath(world.out_dir, world.sandbox)
    O["out_rel"] = opts["out_rel"]
    # ---- 1. the real run in a pristine directory
    ref = nnvg.reference_run(world, without_env_lookups(O), ref_cache, enum_seed=enum_seed, **env_plan(O))
    evaluations += 1
    exec_case = {
        "label": case.get("label"),
        "hash_seed": case.get("hash_seed", 0),
        "dsdl": {"roots": list(roots), "files": dict(files)},
        "opts": opts,
        "dirty": dirty,
        "enum_seed": enum_seed,
        "tier": tier,
    }
    if not ref["ok"]:
        bump("ops", "skipped-real-run-fails:" + ref["res"]["status"])
        if O.get("templates") == "broken_syntax" or O.get("support_read_fault"):
            # Generation fails here (a template with a syntax error, a template that cannot be read), so nothing is claimed about
            # WHAT the listing modes print - but they still "create, modify or delete nothing on disk": an earlier, successful run
            # (with the built-in templates) populated the directory, then every mode is run and only its effects are judged.
            earlier = {k: v for k, v in O.items() if k not in ("templates", "support_templates", "support_read_fault", "ns_types")}
            res0 = proc.run_invocation(world.invocation(without_env_lookups(earlier), **{k: v for k, v in env_plan(earlier).items() if k != "read_faults"}))
            evaluations += 1
            if nnvg.succeeded(res0):
                for mode in ("list_outputs", "list_inputs", "dry_run"):
                    o = dict(without_env_lookups(O), mode=mode)
                    before = snapshot.snapshot(world.sandbox, with_mtime=True)
                    res = proc.run_invocation(world.invocation(o, enum_seed=enum_seed, **env_plan(O)))
                    evaluations += 1
                    after = snapshot.snapshot(world.sandbox, with_mtime=True)
                    bump("ops", "%s@populated-while-generation-would-fail" % mode)
                    brief = {"mode": mode, "phase": "populated, generation would fail", "status": res["status"], "argv": world.argv(o)[1:], "exc": res.get("exc_msg", "")[:300]}
                    muts = _mutations(res)
                    if muts:
                        violation("listing-mutates:%s:%s" % (mode, muts[0][0]), dict(brief, mutations=muts[:6]))
                    d = snapshot.diff(before, after)
                    if d:
                        violation("listing-changes-disk:%s" % mode, dict(brief, diff=d[:6]))
                return {"violations": violations, "evaluations": evaluations, "executed": exec_case, "counters": counters, "states": [], "nontrivial_keys": ["failing-generation|%s|%s" % (O["lang"], O.get("templates") or "read-fault")], "sim_time_s": 0.0, "sample": {"opts": opts, "failing_generation": True}, "digest": hashlib.sha256(repr(sorted(v["signature"] for v in violations)).encode()).hexdigest()[:16]}
        return {"violations": [], "evaluations": evaluations, "skipped": 1, "executed": exec_case, "counters": counters, "states": [], "nontrivial_keys": []}
    out_abs = world.out_dir
    created = {os.path.realpath(os.path.join(out_abs, p)) for p in ref["files"]}
    created_ev = {os.path.realpath(world.sandbox) + e[2][1:] for e in ref["res"]["events"] if e[1] == "open-w" and str(e[2]).startswith("@")}
    read_templates = set()
    for e in ref["res"]["events"]:
        if e[1] == "open-r" and str(e[2]).endswith(".j2"):
            p = e[2]
            p = world.sandbox + p[1:] if p.startswith("@") else p
            read_templates.add(os.path.realpath(p))
    if O.get("gen_support") != "only":
        root_files, dep_files = dsdl_closure(os.path.join(world.in_dir, O["root"]), [os.path.join(world.in_dir, x) for x in O.get("lookups", [])])
    else:
        root_files, dep_files = set(), set()
    if dep_files:
        bump("probes", "has_lookup_dependency_files")

    def check_modes(phase: str) -> None:
        nonlocal evaluations, compared
        for mode in ("list_outputs", "list_inputs", "dry_run", "list_configuration"):
            for rofs in (False, True):
                if rofs and phase == "dirty" and mode in ("list_inputs", "list_configuration"):
                    continue
                o = dict(without_env_lookups(O), mode=mode)
                before = snapshot.snapshot(world.sandbox, with_mtime=True)
                inv = world.invocation(o, enum_seed=enum_seed + (1 if rofs else 0), **env_plan(O))
                if rofs:
                    inv["rofs"] = True
                res = proc.run_invocation(inv)
                evaluations += 1
                ev_digests.append(nnvg.event_digest(res) + res["stdout"].replace(world.sandbox, "@"))
                after = snapshot.snapshot(world.sandbox, with_mtime=True)
                states.append(snapshot.digest(after, with_mtime=True))
                bump("ops", "%s%s@%s" % (mode, "+rofs" if rofs else "", phase))
                bump("status", res["status"])
                for k, v in res.get("probes", {}).items():
                    bump("probes", k, v)
                brief = {"mode": mode, "phase": phase, "rofs": rofs, "status": res["status"], "argv": inv["argv"][1:], "exc": res.get("exc_msg", "")[:300]}
                muts = _mutations(res)
                if muts:
                    violation("listing-mutates:%s:%s" % (mode, muts[0][0]), dict(brief, mutations=muts[:6]))
                d = snapshot.diff(before, after)
                if d:
                    violation("listing-changes-disk:%s" % mode, dict(brief, diff=d[:6]))
                if not nnvg.succeeded(res):
                    violation("listing-fails%s:%s:%s" % ("-on-rofs" if rofs else "", mode, res["status"]), brief)
                    continue
                if mode == "list_outputs":
                    listed = set(_parse_listing(res["stdout"], world.cwd))
                    compared += 1
                    extra = sorted(listed - created)
                    missing = sorted(created - listed)
                    if extra:
                        k = nnvg.sig_kind(os.path.relpath(extra[0], out_abs))
                        violation("list-outputs-extra:%s:%s" % (k, flags_of(O) if k == "support" else ""), dict(brief, extra=extra[:5]))
                    if missing:
                        k = nnvg.sig_kind(os.path.relpath(missing[0], out_abs))
                        violation("list-outputs-missing:%s:%s" % (k, flags_of(O) if k == "support" else ""), dict(brief, missing=missing[:5]))
                elif mode == "list_inputs" and not rofs:
                    listed = {os.path.realpath(p) for p in _parse_listing(res["stdout"], world.cwd)}
                    compared += 1
                    miss_t = sorted(read_templates - listed)
                    if miss_t:
                        p0 = miss_t[0]
                        cls = "builtin-template"
                        if p0.startswith(os.path.realpath(world.tpl_dir)):
                            cls = "user-support-template" if O.get("support_templates") and O["support_templates"] in p0 else "user-type-template"
                        violation("list-inputs-missing:%s" % cls, dict(brief, missing=miss_t[:5]))
                    miss_r = sorted(root_files - listed)
                    if miss_r:
                        violation("list-inputs-missing:dsdl-root", dict(brief, missing=miss_r[:5]))
                    miss_d = sorted(dep_files - listed)
                    if miss_d:
                        violation("list-inputs-missing:dsdl-lookup-dependency", dict(brief, missing=miss_d[:5]))

    # the seam's own record of what the real run created must agree with the snapshot (sanity of the harness)
    # (the "rename" style of the fake formatter writes <file>.fmt-tmp and renames it over <file>: not a created file)
    created_ev = {p for p in created_ev if not p.endswith(".fmt-tmp")}
    if created_ev != created:
        raise proc.HarnessError("recorder and snapshot disagree on created files: %r" % (sorted(created_ev ^ created)[:4],))

    # ---- 2. empty directory
    check_modes("empty")

    # ---- 3. make it dirty
    executed_dirty = []
    for i, d in enumerate(dirty):
        d = dict(d)
        existing = sorted(snapshot.files_of(snapshot.snapshot(out_abs, with_mtime=False)))
        if d["op"] == "generate":
            res = proc.run_invocation(world.invocation(real_opts(d["opts"])))
            evaluations += 1
            bump("ops", "dirty-generate:" + res["status"].split(":")[0])
        else:
            path = d.get("path")
            if path is None:
                pool = existing if d["op"] == "chmod" else sorted(ref["files"])
                if not pool:
                    continue
                path = pool[d.pop("pick") % len(pool)]
            d.pop("pick", None)
            d["path"] = path
            p = os.path.join(out_abs, path)
            if d["op"] == "chmod":
                if not os.path.isfile(p):
                    continue
                os.chmod(p, d["mode"])
            else:
                if os.path.isdir(p) or any(os.path.isfile(os.path.join(out_abs, *path.split("/")[:j])) for j in range(1, len(path.split("/")))):
                    continue
                os.makedirs(os.path.dirname(p), exist_ok=True)
                if os.path.lexists(p):
                    os.chmod(p, 0o644)
                with open(p, "w", encoding="utf-8") as f:
                    f.write(d["content"])
                os.chmod(p, d["mode"])
            bump("ops", "dirty-" + d["op"])
        executed_dirty.append(d)
    exec_case["dirty"] = executed_dirty

    # ---- 4. dirty directory: modes again, then the real run over it must create exactly the listed set
    if executed_dirty:
        check_modes("dirty")
        res = proc.run_invocation(world.invocation(without_env_lookups(O), enum_seed=enum_seed + 7, **env_plan(O)))
        evaluations += 1
        if nnvg.succeeded(res):
            written = {os.path.realpath(world.sandbox) + e[2][1:] for e in res["events"] if e[1] == "open-w" and str(e[2]).startswith("@") and not str(e[2]).endswith(".fmt-tmp")}
            if written != created:
                x = sorted(written ^ created)
                violation("real-run-set-differs-on-dirty-directory:%s" % nnvg.sig_kind(os.path.relpath(x[0], out_abs)), {"diff": x[:6]})
            bump("probes", "real_run_over_dirty_directory")

    key = hashlib.sha256(repr((sorted((k, str(v)) for k, v in opts.items() if k not in ("root", "lookups")), [d["op"] for d in executed_dirty])).encode()).hexdigest()[:16]
    counters["dsdl"] = {k: v for k, v in stats.items() if isinstance(v, int)}
    return {
        "violations": violations,
        "executed": exec_case,
        "evaluations": evaluations,
        "nontrivial_keys": [key] if compared else [],
        "states": states,
        "counters": counters,
        "sim_time_s": 0.0,
        "sample": {"opts": opts, "dirty": [{k: v for k, v in d.items() if k != "content"} for d in executed_dirty], "n_created": len(created)},
        "digest": hashlib.sha256((key + "|".join(ev_digests) + "|".join(sorted(v["signature"] for v in violations))).encode()).hexdigest()[:16],
    }


def reductions(case: dict) -> typing.Iterator[dict]:
    dirty = case.get("dirty", [])
    for i in range(len(dirty)):
        c = dict(case)
        c["dirty"] = dirty[:i] + dirty[i + 1 :]
        yield c
    for k in sorted(case["opts"]):
        if k in ("lang", "root", "lookups"):
            continue
        c = dict(case)
        c["opts"] = {kk: vv for kk, vv in case["opts"].items() if kk != k}
        yield c
    yield from nnvg.reduce_dsdl(case)
