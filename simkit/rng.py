"""
Keyed, process-independent pseudo randomness.

Every decision in the simulator is H(seed, labels...) or a draw from a *labelled* stream derived from it.
Never Python hash(), never the global ``random`` module, never a clock.
"""
import hashlib
import typing


def H(*labels: typing.Any) -> int:
    """64 bit keyed hash of the labels (ints and strs only; repr() of those is process independent)."""
    for lab in labels:
        if not isinstance(lab, (int, str, bytes, tuple)):
            raise TypeError("label must be int/str/bytes/tuple, got %r" % (type(lab),))
    return int.from_bytes(hashlib.sha256(repr(labels).encode("utf-8")).digest()[:8], "big")


class Rng:
    """A labelled stream. ``sub(...)`` derives an independent stream, so removing a step never shifts another."""

    __slots__ = ("key", "n")

    def __init__(self, *labels: typing.Any):
        self.key = tuple(labels)
        self.n = 0

    def sub(self, *labels: typing.Any) -> "Rng":
        return Rng(*self.key, *labels)

    def u64(self) -> int:
        self.n += 1
        return H(*self.key, self.n)

    def below(self, n: int) -> int:
        if n <= 0:
            raise ValueError("below(%r)" % n)
        return self.u64() % n

    def between(self, lo: int, hi: int) -> int:
        """inclusive"""
        return lo + self.below(hi - lo + 1)

    def chance(self, num: int, den: int) -> bool:
        return self.below(den) < num

    def choice(self, seq: typing.Sequence) -> typing.Any:
        return seq[self.below(len(seq))]

    def weighted(self, pairs: typing.Sequence[typing.Tuple[typing.Any, int]]) -> typing.Any:
        total = sum(w for _, w in pairs)
        x = self.below(total)
        for v, w in pairs:
            if x < w:
                return v
            x -= w
        raise AssertionError()

    def shuffle(self, items: list) -> list:
        for i in range(len(items) - 1, 0, -1):
            j = self.below(i + 1)
            items[i], items[j] = items[j], items[i]
        return items

    def permutation(self, n: int) -> typing.List[int]:
        return self.shuffle(list(range(n)))

    def sample(self, seq: typing.Sequence, k: int) -> list:
        idx = self.permutation(len(seq))[:k]
        return [seq[i] for i in sorted(idx)]

    def subset(self, seq: typing.Sequence, num: int = 1, den: int = 2) -> list:
        return [x for x in seq if self.chance(num, den)]

    def bytes(self, n: int) -> bytes:
        out = bytearray()
        while len(out) < n:
            out += self.u64().to_bytes(8, "big")
        return bytes(out[:n])


def permute_stable(items: typing.Sequence, *labels: typing.Any) -> list:
    """Sort, then permute by a keyed hash: the result depends only on the *set* of items and the labels."""
    s = sorted(items)
    return Rng(*labels).shuffle(s)
