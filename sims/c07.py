"""
C07 - reproducible output: a pure function of inputs, options and tool version (DESIGN section 2, C07).

Each case is generated once in a baseline world and again in perturbed worlds chosen by the scheduler; every
perturbed ambient dimension is a counted "fault kind". Oracle: identical path set and byte-identical files.
"""
import base64
import gzip
import hashlib
import io
import os
import pickle
import re
import typing

from simkit import dsdlgen, nnvg, proc, snapshot, usertpl
from simkit.batch import HASH_SEED_VALUES
from simkit.rng import Rng

PROP = "C07"
LEVEL = "exploration"
RULE = (
    "A case is a seeded (DSDL namespace set, target language, option set with auditing off, optional user templates) "
    "generated in a baseline world and in 5-12 perturbed worlds; each perturbed world changes 1-4 ambient dimensions: "
    "clock start, clock stepping/jumping backwards between files, PYTHONHASHSEED (fresh interpreter), process age "
    "(another generator run earlier in the same interpreter), cold vs warm process, cwd, absolute location of inputs, "
    "absolute location of outputs, relative vs absolute spelling, directory enumeration order, umask, environment "
    "(TZ, LANG, HOME), lookup directories via DSDL_INCLUDE_PATH in another order, mtime/mode of input files, machine history "
    "(earlier processes of the same user with other options sharing TMPDIR, HOME, the cache directory or the output directory), "
    "interpreter start options (-X ..., -B, -W). "
    "Distinct = digest of (language, options, set of perturbed dimensions with their values); non-trivial = the "
    "baseline run succeeded and at least one perturbed world was compared with it."
)
STATE_MEASURE = "digest of (relative path, sha256) of the generated tree per world"
COMPONENTS = {
    "real": ["nunavut (CLI, generators, filters incl. filter_pickle, all built-in templates)", "pydsdl", "vendored Jinja2", "PyYAML", "CPython 3.12 (fork()ed warm children and fresh interpreters)", "tmpfs file system"],
    "stub": ["clock (nunavut.jinja.datetime shim and time.time read the simulated clock)", "directory enumeration order (seeded permutation per call)", "PYTHONHASHSEED / cwd / locations / umask / environment chosen by the scheduler", "POSIX owner permission check"],
}  # fmt: skip
ASSUMPTIONS = [
    "only built-in templates and planted user templates that do not print the documented now_utc global are used",
    "the interpreter version (legitimately recorded in headers) is not perturbed: the statement does not list it",
    "inputs for which the baseline generation fails are skipped (counted)",
]

DIMS = [
    "clock_start", "clock_step", "hash_seed", "aged_process", "cold_process", "cwd", "in_location", "out_location",
    "spelling", "enum", "umask", "env", "lookup_via_env", "input_meta", "tpl_location", "machine_history", "py_flags",
    "out_preexists", "in_creation_order", "sys_path",
]  # fmt: skip
T0 = 1750000000.0


def n_cases(tier: str) -> int:
    return 300 if tier == "quick" else 4000


def budget_s(tier: str) -> float:
    return 170.0 if tier == "quick" else 1500.0


def case_timeout_s(tier: str) -> float:
    return 420.0


def directed_cases(seed: int, tier: str) -> typing.List[dict]:
    out = []
    for li, lang in enumerate(["c", "cpp", "py", "html"]):
        out.append({"label": "directed-each-dimension-%s" % lang, "dsdl_seed": [seed, PROP, "directed", li % 2], "lang": lang, "each_dim": True})
    for li, (lang, tpl) in enumerate([("py", "introspect"), ("html", "introspect"), ("cpp", "builtin_copy"), ("c", "introspect")]):
        out.append({"label": "directed-each-dimension-%s-%s" % (lang, tpl), "dsdl_seed": [seed, PROP, "directed", li % 2], "lang": lang, "each_dim": True, "templates": tpl})
    # sibling namespaces whose types embed each other's types, under every hash seed (py pickles the model: the order in which
    # types are rendered must not depend on the hash seed)
    siblings = {
        "roots": ["ns"],
        "files": {
            "ns/alpha/A.1.0.dsdl": "uint8 a\nuint16[<=3] b\n@sealed\n",
            "ns/bravo/B.1.0.dsdl": "ns.alpha.A.1.0 a\nuint8[<=5] c\n@sealed\n",
            "ns/charlie/C.1.0.dsdl": "ns.bravo.B.1.0[<=2] bs\nns.alpha.A.1.0 a\n@extent 128 * 8\n",
            "ns/delta/deep/D.1.0.dsdl": "ns.charlie.C.1.0 c\nns.bravo.B.1.0 b\n@sealed\n",
            "ns/echo/E.1.0.dsdl": "@union\nns.alpha.A.1.0 a\nns.delta.deep.D.1.0 d\n@sealed\n",
            "ns/T.1.0.dsdl": "ns.echo.E.1.0 e\nns.alpha.A.1.0 a\n@sealed\n",
        },
    }
    for lang in ("py", "c"):
        out.append({"label": "directed-sibling-namespaces-every-hash-seed-%s" % lang, "dsdl": siblings, "opts": {"lang": lang, "root": "ns", "lookups": []}, "worlds": [{"hash_seed": hv} for hv in HASH_SEED_VALUES] + [{"enum": 12345}, {"hash_seed": HASH_SEED_VALUES[1], "enum": 99}]})
    return out


def gen_case(seed: int, index: int, tier: str) -> dict:
    return {"dsdl_seed": [seed, PROP, "dsdl", index], "ops_seed": [seed, PROP, "ops", index], "tier": tier}


def _gen_opts(r: Rng, ds: dsdlgen.DsdlSet, lang: typing.Optional[str]) -> dict:
    lang = lang or r.weighted([("c", 4), ("cpp", 4), ("py", 4), ("html", 1)])
    with_deps = [x for x in ds.roots if ds.root_deps(x)]
    root = r.choice(with_deps) if with_deps and r.chance(1, 2) else r.choice(ds.roots)
    o = {"lang": lang, "root": root, "lookups": ds.root_deps(root)}  # type: typing.Dict[str, typing.Any]
    if r.chance(1, 4):
        o["omit_ser"] = True
    if r.chance(1, 4) and lang in ("py", "html"):
        o["ns_types"] = True
    if lang == "cpp" and r.chance(1, 2):
        o["std"] = r.choice(["c++14", "c++17", "c++17-pmr", "c++20"])
    if r.chance(1, 6):
        o["pp_trim"] = True
    if r.chance(1, 6):
        o["pp_max_empty"] = r.choice([0, 1, 2])
    if r.chance(1, 4):
        names = [n for n in sorted(usertpl.SETS) if usertpl.usable_for(lang, n)]
        if lang in ("c", "cpp", "py"):
            names += ["builtin_copy", "builtin_copy"]  # the user's directory is a copy of the built-in templates
        if names:
            o["templates"] = r.choice(names)
            o["ns_types"] = r.chance(1, 2) if o["templates"] != "builtin_copy" else (lang == "py" and r.chance(1, 2))
    if r.chance(1, 6) and lang in usertpl.SUPPORT_NAME:
        o["support_templates"] = "override"
    if r.chance(1, 8) and lang in ("c", "cpp"):
        o["endianness"] = r.choice(["any", "little", "big"])
    if r.chance(1, 8) and lang in ("c", "cpp"):
        o["asserts"] = True
    if r.chance(1, 8) and lang in ("c", "cpp"):
        o["omit_float"] = True
    if r.chance(1, 8) and lang in ("c",):
        o["override_varlen"] = True
    if r.chance(1, 8):
        o["pp_prog"] = r.choice([True, "rename", "crlf"])  # an external post-processor (a formatter sensitive to the file's name / a line-ending normaliser)
    if r.chance(1, 8) and lang in ("c", "cpp"):
        o["extra_support"] = r.choice([True, "readonly"])
    if r.chance(1, 6):
        # two or three --configuration files that disagree about keys visible in the output: the LAST one wins, in
        # every world (their order is an option, not an accident of hashing or location)
        vals = {"c": ("target_endianness", ["little", "big", "any"]), "cpp": ("target_endianness", ["little", "big", "any"])}.get(lang)
        docs = []
        for i in range(r.between(2, 3)):
            d = {"stropping_prefix": r.choice(["_", "zq", "x_"]), "limit_empty_lines": r.choice([0, 1, 2])}
            if vals:
                d["options"] = {vals[0]: r.choice(vals[1])}
            docs.append(d)
        o["cfg_docs"] = docs
    if r.chance(1, 8):
        o["trim_blocks"] = True
    if r.chance(1, 8):
        o["lstrip_blocks"] = True
    if r.chance(1, 8):
        o["gen_support"] = r.choice(["always", "never", "as-needed"])
        if o["gen_support"] == "always":
            o.pop("omit_ser", None)
    return o


def _perturb(r: Rng, dims: typing.List[str], worker_hash_seed: int) -> dict:
    """An explicit world delta; every value is recorded literally (replayable without the seed)."""
    w = {}  # type: typing.Dict[str, typing.Any]
    for d in dims:
        if d == "clock_start":
            w[d] = r.choice([1.0, 59.0, 86400.0, 400 * 86400.0, -3 * 365 * 86400.0])
        elif d == "clock_step":
            w[d] = r.choice([[1.0], [59.0, 1.0], [3600.0, -3600.0, 86400.0], [0.0, 1.0, 0.0, 365 * 86400.0], [-1.0]])
        elif d == "hash_seed":
            others = [v for v in HASH_SEED_VALUES if v != worker_hash_seed]
            w[d] = r.choice(others)
        elif d in ("aged_process", "cold_process"):
            w[d] = True
        elif d == "cwd":
            w[d] = r.choice(["cwd/deeper", ".", "in", "other cwd"])
        elif d == "in_location":
            w[d] = r.choice(["moved/in", "a/b/c/d/inputs", "in put-é", "x"])
        elif d == "tpl_location":
            w[d] = r.choice(["moved/templates", "t p l-é", "a/b/tpl"])
        elif d == "out_location":
            w[d] = r.choice(["build/out", "o u t-é", "cwd/out", "out2"])
        elif d == "spelling":
            w[d] = r.choice([["rel", "rel"], ["abs", "rel_dot"], ["rel", "abs_slash"], ["abs", "dotdot"], ["rel", "rel_slash"]])
        elif d == "enum":
            w[d] = r.below(1 << 30) + 1
        elif d == "umask":
            w[d] = r.choice([0o077, 0o002, 0o027])
        elif d == "env":
            w[d] = r.choice([{"TZ": "Asia/Tokyo"}, {"TZ": "America/Los_Angeles", "LANG": "C"}, {"LANG": "de_DE.UTF-8", "LC_ALL": "de_DE.UTF-8"}, {"HOME": "/nonexistent", "USER": "someone"}, {"PYTHONUTF8": "1", "COLUMNS": "20"}, {"LC_ALL": "C", "PYTHONUTF8": "0", "PYTHONCOERCECLOCALE": "0"}, {"LC_ALL": "POSIX", "PYTHONUTF8": "0", "PYTHONCOERCECLOCALE": "0", "PYTHONIOENCODING": "ascii"}])
        elif d == "lookup_via_env":
            w[d] = r.choice(["forward", "reverse"])
        elif d == "machine_history":
            # earlier runs by the same user on the same machine, in OTHER processes and with other options: whatever
            # they left in TMPDIR / HOME / the cache directory must not reach the bytes of the measured run
            w[d] = r.choice([["whitespace"], ["config"], ["whitespace", "config"], ["other_lang", "whitespace"], ["same", "config"], ["same_outdir_crlf"], ["same_outdir_crlf", "whitespace"]])
        elif d == "py_flags":
            # how the interpreter was started (debuggers, CI wrappers and packagers add -X options): not an input
            w[d] = r.choice([["-X", "faulthandler"], ["-X", "dev"], ["-X", "utf8"], ["-B"], ["-X", "pycache_prefix=@SANDBOX@/pyc"], ["-X", "faulthandler", "-X", "tracemalloc=2"], ["-W", "ignore"], ["-O"], ["-OO"], ["-q", "-O"], ["-X", "frozen_modules=off"], ["-X", "int_max_str_digits=0"]])
        elif d == "out_preexists":
            # the output directory is there already (empty, or holding an unrelated file in a sub-directory of its own)
            w[d] = r.choice(["empty", "unrelated", "empty-0700"])
        elif d == "sys_path":
            # the module search path holds more than the tool: another project's directory with stale packaging metadata of
            # some other nunavut release (not the code that runs), unrelated modules
            w[d] = r.choice(["stale_dist_info", "stale_egg_info", "unrelated_modules"])
        elif d == "in_creation_order":
            # the input files were created in another order (other inode numbers, other raw directory order)
            w[d] = r.choice(["reverse", "shuffled"])
        elif d == "input_meta":
            w[d] = {"mtime": r.choice([0, 946684800, 4102444800]), "mode": r.choice([0o444, 0o644, 0o600])}
        else:
            raise ValueError(d)
    if str((w.get("env") or {}).get("PYTHONUTF8")) == "0":
        # under an ASCII locale the interpreter cannot even name non-ASCII paths (file system encoding): that is the
        # environment's limit, not the generator's, so such a world uses ASCII directory names
        for k in ("in_location", "out_location", "tpl_location", "cwd"):
            if k in w:
                w[k] = w[k].encode("ascii", "replace").decode("ascii").replace("?", "e")
    return w


_BLOB = re.compile(r"(_restore_constant_\(\n)((?:\s*'[^'\n]*'\n)+)(\s*\))")


def _decode_blob(blob_lines: str) -> typing.Optional[bytes]:
    try:
        b85 = "".join(eval(ln.strip()) for ln in blob_lines.strip().split("\n"))  # pylint: disable=eval-used
        return base64.b85decode(b85)
    except Exception:  # pylint: disable=broad-except
        return None


def _neutral_model(raw_pickle: bytes) -> typing.Optional[bytes]:
    """Unpickle a _MODEL_ payload with every pathlib path replaced by a constant, then re-pickle."""
    try:

        class U(pickle.Unpickler):
            def find_class(self, module: str, name: str) -> typing.Any:
                if module.startswith("pathlib") and "Path" in name:
                    return lambda *a, **k: "<path>"
                return super().find_class(module, name)

        obj = U(io.BytesIO(raw_pickle)).load()
        return pickle.dumps(obj, protocol=4)
    except Exception:  # pylint: disable=broad-except
        return None


def _model_without_caches(raw_pickle: bytes, blank_paths: bool) -> typing.Optional[bytes]:
    """Re-pickle a _MODEL_ payload with pydsdl's lazily filled MemoizationOperator caches dropped (and, on request, every
    pathlib path replaced by a constant)."""
    try:

        class U(pickle.Unpickler):
            def find_class(self, module: str, name: str) -> typing.Any:
                if blank_paths and module.startswith("pathlib") and "Path" in name:
                    return lambda *a, **k: "<path>"
                return super().find_class(module, name)

        class P(pickle.Pickler):
            def reducer_override(self, o: typing.Any) -> typing.Any:
                if type(o).__name__ == "MemoizationOperator" and hasattr(o, "_child"):
                    return (type(o), (o._child,))  # pylint: disable=protected-access
                return NotImplemented

        obj = U(io.BytesIO(raw_pickle)).load()
        buf = io.BytesIO()
        P(buf, protocol=4).dump(obj)
        return buf.getvalue()
    except Exception:  # pylint: disable=broad-except
        return None


def classify_diff(lang: str, rel: str, a: bytes, b: bytes) -> str:
    """Returns a known-defect class only if that defect explains *all* of the difference, else 'bytes'."""
    if lang == "py" and rel.endswith(".py"):
        try:
            ta, tb = a.decode("utf-8"), b.decode("utf-8")
        except UnicodeDecodeError:
            return "bytes"
        if "\r\n" in ta and "\r\n" in tb and "\n" not in ta.replace("\r\n", "") and "\n" not in tb.replace("\r\n", ""):
            # (an external line-ending normaliser may have run over both: the classification looks at LF text)
            ta, tb = ta.replace("\r\n", "\n"), tb.replace("\r\n", "\n")
        ba, bb = _BLOB.findall(ta), _BLOB.findall(tb)
        if ba and len(ba) == len(bb) and _BLOB.sub(r"\1<blob>\3", ta) == _BLOB.sub(r"\1<blob>\3", tb):
            # the text outside the _MODEL_ constant is identical; now look inside the constant
            classes = set()  # type: typing.Set[str]
            for (_, xa, _), (_, xb, _) in zip(ba, bb):
                if xa == xb:
                    continue
                ga, gb = _decode_blob(xa), _decode_blob(xb)
                if ga is None or gb is None:
                    return "py-model-blob"
                if ga[:10] != gb[:10]:
                    return "py-model-gzip-header"  # e.g. the MTIME field
                try:
                    pa, pb = gzip.decompress(ga), gzip.decompress(gb)
                except Exception:  # pylint: disable=broad-except
                    return "py-model-blob"
                na, nb = _neutral_model(pa), _neutral_model(pb)
                if na is not None and na == nb:
                    classes.add("py-model-embeds-absolute-source-path")
                    continue
                ca, cb = _model_without_caches(pa, False), _model_without_caches(pb, False)
                if ca is not None and ca == cb:
                    classes.add("py-model-pickles-pydsdl-memoization-caches")
                    continue
                ca, cb = _model_without_caches(pa, True), _model_without_caches(pb, True)
                if ca is not None and ca == cb:
                    classes.add("py-model-embeds-absolute-source-path")
                    classes.add("py-model-pickles-pydsdl-memoization-caches")
                    continue
                return "py-model-pickle"
            return "+".join(sorted(classes)) if classes else "bytes"
    return "bytes"


def run_case(case: dict, ctx: dict) -> dict:
    stats = {}  # type: typing.Dict[str, typing.Any]
    counters = {"ops": {}, "perturbed_dimensions": {}, "probes": {}, "status": {}}  # type: typing.Dict[str, typing.Dict[str, int]]

    def bump(group: str, key: str, n: int = 1) -> None:
        counters[group][key] = counters[group].get(key, 0) + n

    disk = os.path.join(ctx["scratch"], "disk")
    os.makedirs(disk)
    if "dsdl" in case:
        roots, files = case["dsdl"]["roots"], case["dsdl"]["files"]
        if dsdlgen.validate(files, roots, os.path.join(ctx["scratch"], "val")) is not None:
            return {"violations": [], "evaluations": 0, "skipped": 1, "executed": case, "counters": counters}
        ds = None
    else:
        ds = dsdlgen.generate_valid(tuple(case["dsdl_seed"]), os.path.join(ctx["scratch"], "val"), stats=stats)
        roots, files = ds.roots, ds.files
    tier = case.get("tier", ctx.get("tier", "quick"))
    r = Rng(*case["ops_seed"]) if "ops_seed" in case else Rng(PROP, "directed", case.get("label", ""))
    worker_hs = int(ctx.get("hash_seed") or 0)

    if "opts" in case:
        opts = dict(case["opts"])
        worlds = list(case["worlds"])
    else:
        assert ds is not None
        opts = _gen_opts(r.sub("opts"), ds, case.get("lang"))
        if case.get("templates"):
            opts["templates"] = case["templates"]
            opts.pop("ns_types", None)
            opts.pop("support_templates", None)
        worlds = []
        if case.get("each_dim"):
            for i, d in enumerate(DIMS):
                worlds.append(_perturb(r.sub("w", i), [d], worker_hs))
            for hv in HASH_SEED_VALUES:
                if hv != worker_hs:
                    worlds.append({"hash_seed": hv})
        else:
            n = 5 if tier == "quick" else 10
            enabled = r.subset(DIMS, 2, 3) or ["clock_start"]
            for i in range(n):
                rw = r.sub("w", i)
                k = rw.weighted([(1, 3), (2, 3), (3, 2), (4, 1)])
                dims = rw.sample(enabled, min(k, len(enabled)))
                worlds.append(_perturb(rw, dims, worker_hs))

    # pydsdl (a dependency, not the subject) reads DSDL files with the locale's default encoding: in a world whose
    # interpreter starts under an ASCII locale the *inputs* are therefore made ASCII for every world of the case;
    # non-ASCII text still reaches the output through templates (user sets, the C++14 union banner, HTML assets)
    if any(str((w.get("env") or {}).get("PYTHONUTF8")) == "0" for w in worlds):
        files = {k: v.encode("ascii", "replace").decode("ascii") for k, v in files.items()}
        bump("probes", "ascii_locale_world")

    def real_opts(o: dict) -> dict:
        o = dict(o)
        if o.get("support_templates"):
            o["support_templates"] = "%s-%s" % (o["support_templates"], o["lang"])
        return o

    def run_world(idx: int, delta: dict) -> typing.Tuple[typing.Optional[typing.Dict[str, bytes]], dict]:
        # every world lives at the *same* absolute path (wiped in between), so that absolute locations differ
        # only when the in_location / out_location / cwd dimensions say so
        sandbox = os.path.join(disk, "w")
        if os.path.lexists(sandbox):
            nnvg._force_rmtree(sandbox)  # pylint: disable=protected-access
        os.makedirs(sandbox)
        world = nnvg.World(
            sandbox,
            in_rel=delta.get("in_location", "in"),
            out_rel=delta.get("out_location", "out"),
            cwd_rel=delta.get("cwd", "cwd"),
            tpl_rel=delta.get("tpl_location", "tpl"),
        )
        if delta.get("in_creation_order"):
            order = sorted(files, reverse=True) if delta["in_creation_order"] == "reverse" else Rng("creation-order", len(files)).shuffle(sorted(files))
            # (decoy files are created and removed in between so that inode numbers do not simply follow the names)
            for ci, rel in enumerate(order):
                decoy = os.path.join(sandbox, "decoy-%d" % ci)
                open(decoy, "w").close()
                dsdlgen.materialize_files({rel: files[rel]}, roots, world.in_dir)
                if ci % 2:
                    os.remove(decoy)
            for ci in range(len(order)):
                if os.path.exists(os.path.join(sandbox, "decoy-%d" % ci)):
                    os.remove(os.path.join(sandbox, "decoy-%d" % ci))
        else:
            dsdlgen.materialize_files(files, roots, world.in_dir)
        if delta.get("out_preexists"):
            os.makedirs(world.out_dir, exist_ok=True)
            if delta["out_preexists"] == "unrelated":
                os.makedirs(os.path.join(world.out_dir, "zz-unrelated"), exist_ok=True)
                with open(os.path.join(world.out_dir, "zz-unrelated", "NOTES.txt"), "w") as f:
                    f.write("not generated\n")
            elif delta["out_preexists"] == "empty-0700":
                os.chmod(world.out_dir, 0o700)
        o = real_opts(opts)
        if o.get("templates"):
            usertpl.plant(world.tpl_dir, o["templates"], usertpl.builtin_copy(o["lang"]) if o["templates"] == "builtin_copy" else usertpl.SETS[o["templates"]])
        if o.get("support_templates"):
            usertpl.plant(world.tpl_dir, o["support_templates"], usertpl.SUPPORT_SETS[opts["support_templates"]](o["lang"]))
        if o.get("cfg_docs"):
            import yaml

            cfg_dir = os.path.join(sandbox, "cfg")  # (same absolute path in every world)
            os.makedirs(cfg_dir, exist_ok=True)
            o["configs"] = []
            for ci, d in enumerate(o.pop("cfg_docs")):
                cp = os.path.join(cfg_dir, ["vendor", "project", "local"][ci % 3] + ".yaml")
                with open(cp, "w", encoding="utf-8") as f:
                    yaml.safe_dump({"nunavut.lang.%s" % o["lang"]: d}, f)
                o["configs"].append(cp)
        sp = delta.get("spelling", ["abs", "abs"])
        o["in_spelling"], o["outdir_spelling"] = sp[0], sp[1]
        # the "machine" besides inputs and outputs: temporary, home and cache directories (pristine in every world
        # unless the machine_history dimension ran something there before)
        machine = os.path.join(sandbox, "machine")
        for sub in ("tmp", "home", "cache"):
            os.makedirs(os.path.join(machine, sub))
        env = {"TMPDIR": os.path.join(machine, "tmp"), "HOME": os.path.join(machine, "home"), "XDG_CACHE_HOME": os.path.join(machine, "cache")}
        env.update(delta.get("env", {}))
        if delta.get("lookup_via_env") and o.get("lookups"):
            lk = [os.path.join(world.in_dir, x) for x in o["lookups"]]
            if delta["lookup_via_env"] == "reverse":
                lk.reverse()
            env["DSDL_INCLUDE_PATH"] = os.pathsep.join(lk)
            o["lookups"] = []
        if delta.get("input_meta"):
            for d_, _, fs in os.walk(world.in_dir):
                for fn in fs:
                    p = os.path.join(d_, fn)
                    os.utime(p, (delta["input_meta"]["mtime"], delta["input_meta"]["mtime"]))
                    os.chmod(p, delta["input_meta"]["mode"])
        plan = {
            "clock": {"start": T0 + delta.get("clock_start", 0.0), "deltas": delta.get("clock_step", [0.0])},
            "umask": delta.get("umask", 0o022),
            "env": env,
            "env_unset": [] if "DSDL_INCLUDE_PATH" in env else ["DSDL_INCLUDE_PATH"],
        }  # type: typing.Dict[str, typing.Any]
        if delta.get("enum") is not None:
            plan["enum_seed"] = delta["enum"]
        if delta.get("aged_process"):
            # another generator run (other language, other output directory) earlier in the same interpreter
            other = {"lang": "py" if o["lang"] != "py" else "c", "root": o["root"], "lookups": opts.get("lookups", []), "out_abs": os.path.join(sandbox, "prelude-out")}
            plan["prelude"] = [world.argv(other), world.argv(dict(o, out_abs=os.path.join(sandbox, "prelude-out2")))]
            variant = dsdlgen.same_layout_variant(files)
            if variant is not None:
                # ... and a run of the same language over an EDITED copy of the inputs (a dependency moved to another
                # type of identical layout): nothing of it may survive into the measured run
                vin = os.path.join(sandbox, "prelude-in")
                dsdlgen.materialize_files(variant, roots, vin)
                saved = world.in_dir
                world.in_dir = vin
                try:
                    plan["prelude"].insert(0, world.argv(dict(o, out_abs=os.path.join(sandbox, "prelude-out3"))))
                finally:
                    world.in_dir = saved
                bump("probes", "prelude_over_edited_inputs")
        for hi, variant in enumerate(delta.get("machine_history") or []):
            po = dict(o, out_abs=os.path.join(sandbox, "prior-out-%d" % hi))
            if variant == "whitespace":
                po["trim_blocks"], po["lstrip_blocks"] = not o.get("trim_blocks"), not o.get("lstrip_blocks")
            elif variant == "config":
                cfg = os.path.join(sandbox, "prior-cfg-%d.yaml" % hi)
                with open(cfg, "w", encoding="utf-8") as f:
                    f.write("nunavut.lang.%s:\n  stropping_prefix: zq\n  limit_empty_lines: 0\n  options:\n    target_endianness: little\n" % o["lang"])
                po["configs"] = [cfg]
            elif variant == "same_outdir_crlf":
                # the same command earlier, with a line-ending normaliser as external program, into the SAME output
                # directory: what it left there must not reach the bytes of the measured run
                po["out_abs"] = None
                po["pp_prog"] = "crlf"
            elif variant == "other_lang":
                po["lang"] = "py" if o["lang"] != "py" else "c"
                for k in ("templates", "support_templates", "std"):
                    po.pop(k, None)
            prior = proc.run_invocation(world.invocation(po, **{k: v for k, v in plan.items() if k != "prelude"}))
            bump("probes", "earlier_process_on_same_machine:%s" % ("ok" if nnvg.succeeded(prior) else "failed"))
        if delta.get("sys_path"):
            extra = os.path.join(machine, "other-project")
            os.makedirs(extra, exist_ok=True)
            with open(os.path.join(extra, "helpers_of_other_project.py"), "w") as f:
                f.write("VALUE = 1\n")
            if delta["sys_path"] == "stale_dist_info":
                os.makedirs(os.path.join(extra, "nunavut-0.9.1.dist-info"))
                with open(os.path.join(extra, "nunavut-0.9.1.dist-info", "METADATA"), "w") as f:
                    f.write("Metadata-Version: 2.1\nName: nunavut\nVersion: 0.9.1\nSummary: stale\n")
                with open(os.path.join(extra, "nunavut-0.9.1.dist-info", "RECORD"), "w") as f:
                    f.write("")
            elif delta["sys_path"] == "stale_egg_info":
                os.makedirs(os.path.join(extra, "nunavut.egg-info"))
                with open(os.path.join(extra, "nunavut.egg-info", "PKG-INFO"), "w") as f:
                    f.write("Metadata-Version: 2.1\nName: nunavut\nVersion: 0.9.1\n")
            plan["sys_path_prepend"] = [extra]
        inv = world.invocation(o, **plan)
        locale_env = {k: v for k, v in env.items() if k in ("LC_ALL", "LANG", "LC_CTYPE", "PYTHONUTF8", "PYTHONCOERCECLOCALE", "PYTHONIOENCODING")}
        if delta.get("hash_seed") is not None or delta.get("cold_process") or locale_env or delta.get("py_flags"):
            hs = delta.get("hash_seed")
            if hs is None:
                hs = worker_hs  # cold process, same hash seed value as this worker
            # locale and default encoding are decided when an interpreter starts: such worlds need a fresh one
            res = proc.run_invocation_fresh(inv, hs, start_env=locale_env or None, py_flags=[x.replace("@SANDBOX@", sandbox) for x in delta.get("py_flags") or []])
        else:
            res = proc.run_invocation(inv)
        bump("status", res["status"])
        ev_digests.append(res["status"] + ":" + ",".join(sorted(e[2] for e in res["events"] if e[1] == "open-w" and str(e[2]).startswith("@"))).replace(os.path.relpath(world.out_dir, sandbox), "<out>"))
        if not nnvg.succeeded(res):
            return None, res
        tree = {}
        for rel in snapshot.files_of(snapshot.snapshot(world.out_dir, with_mtime=False)):
            if rel.startswith("zz-unrelated/"):
                continue  # (what the out_preexists dimension put there before the run; not generated)
            with open(os.path.join(world.out_dir, rel), "rb") as f:
                tree[rel] = f.read()
        return tree, res

    violations = []  # type: typing.List[dict]
    states = []  # type: typing.List[str]
    ev_digests = []  # type: typing.List[str]
    evaluations = 0
    compared = 0
    sim_time = 0.0
    base_tree, base_res = run_world(0, {})
    evaluations += 1
    exec_case = {
        "label": case.get("label"),
        "hash_seed": case.get("hash_seed", 0),
        "dsdl": {"roots": list(roots), "files": dict(files)},
        "opts": opts,
        "worlds": worlds,
        "tier": tier,
    }
    if base_tree is None:
        bump("ops", "skipped-baseline-fails:" + base_res["status"])
        return {"violations": [], "evaluations": evaluations, "skipped": 1, "executed": exec_case, "counters": counters, "states": [], "nontrivial_keys": []}
    states.append(_tree_digest(base_tree))
    keys = []
    for i, delta in enumerate(worlds):
        tree, res = run_world(i + 1, delta)
        evaluations += 1
        for d in delta:
            bump("perturbed_dimensions", d)
        if res.get("clock_end") is not None:
            sim_time += abs(float(res["clock_end"]) - (T0 + delta.get("clock_start", 0.0)))
        if delta.get("aged_process") and any(e[1] == "prelude-done" for e in res["events"]):
            bump("probes", "second_run_in_aged_interpreter")
        brief = {"world": delta, "opts": opts, "status": res["status"], "exc": res.get("exc_msg", "")[:300]}
        if tree is None:
            violations.append({"signature": "%s:perturbed-world-fails:%s:%s" % (PROP, opts["lang"], res["status"]), "detail": brief})
            continue
        compared += 1
        states.append(_tree_digest(tree))
        keys.append(hashlib.sha256(repr((opts["lang"], sorted((k, str(v)) for k, v in opts.items() if k not in ("root", "lookups")), sorted((k, str(v)) for k, v in delta.items()))).encode()).hexdigest()[:16])
        if set(tree) != set(base_tree):
            x = sorted(set(tree) ^ set(base_tree))
            violations.append({"signature": "%s:path-set-differs:%s:%s" % (PROP, opts["lang"], nnvg.sig_kind(x[0])), "detail": dict(brief, paths=x[:6])})
            continue
        seen_here = set()  # type: typing.Set[str]
        for rel in sorted(tree):
            if tree[rel] != base_tree[rel]:
                # every differing file is classified: a known defect in one file must not hide a new one in another
                cls = classify_diff(opts["lang"], rel, base_tree[rel], tree[rel])
                if "py-model-pickles-pydsdl-memoization-caches" in cls and not any(str(x).startswith("-O") for x in (delta.get("py_flags") or [])):
                    # the recorded defect is "the bytes change under python -O / -OO"; the same symptom in a world whose
                    # interpreter is not optimised (another hash seed, another enumeration order ...) is something else
                    cls += ":interpreter-not-optimised"
                sig = "%s:differs:%s:%s:%s" % (PROP, opts["lang"], nnvg.sig_kind(rel), cls)
                if sig in seen_here:
                    continue
                seen_here.add(sig)
                violations.append({"signature": sig, "detail": dict(brief, path=rel, first_difference=_first_diff(base_tree[rel], tree[rel]))})
    counters["dsdl"] = {k: v for k, v in stats.items() if isinstance(v, int)}
    return {
        "violations": violations,
        "executed": exec_case,
        "evaluations": evaluations,
        "nontrivial_keys": keys,
        "states": states,
        "counters": counters,
        "sim_time_s": sim_time,
        "sample": {"opts": opts, "worlds": worlds[:3], "n_files": len(base_tree)},
        "digest": hashlib.sha256(("|".join(ev_digests) + "|".join(sorted(v["signature"] for v in violations)) + repr(worlds)).encode()).hexdigest()[:16],
    }


def _tree_digest(tree: typing.Dict[str, bytes]) -> str:
    h = hashlib.sha256()
    for k in sorted(tree):
        h.update(k.encode() + b"\0" + hashlib.sha256(tree[k]).digest())
    return h.hexdigest()[:16]


def _first_diff(a: bytes, b: bytes) -> dict:
    la, lb = a.split(b"\n"), b.split(b"\n")
    for i, (x, y) in enumerate(zip(la, lb)):
        if x != y:
            return {"line": i + 1, "baseline": x[:200].decode("utf-8", "replace"), "perturbed": y[:200].decode("utf-8", "replace")}
    return {"line": min(len(la), len(lb)) + 1, "baseline_lines": len(la), "perturbed_lines": len(lb)}


def reductions(case: dict) -> typing.Iterator[dict]:
    worlds = case["worlds"]
    # keep a single perturbed world
    if len(worlds) > 1:
        for i in range(len(worlds)):
            c = dict(case)
            c["worlds"] = [worlds[i]]
            yield c
    # delta-debug the set of perturbed dimensions back towards the baseline world
    for i, w in enumerate(worlds):
        if len(w) > 1:
            for k in sorted(w):
                c = dict(case)
                c["worlds"] = [dict(x) for x in worlds]
                c["worlds"][i] = {kk: vv for kk, vv in w.items() if kk != k}
                yield c
    for k in sorted(case["opts"]):
        if k in ("lang", "root", "lookups"):
            continue
        c = dict(case)
        c["opts"] = {kk: vv for kk, vv in case["opts"].items() if kk != k}
        yield c
    yield from nnvg.reduce_dsdl(case)
