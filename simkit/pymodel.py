"""
The _MODEL_ constant of generated Python modules (a gzip-compressed, base85-encoded pickle of the pydsdl type): helpers that
re-pickle it with pydsdl's lazily populated MemoizationOperator caches dropped, so that a difference which is *only* that
known defect can be told from any other difference.
"""
import base64
import gzip
import hashlib
import io
import pickle
import re
import typing

BLOB = re.compile(r"(_restore_constant_\(\n)((?:\s*'[^'\n]*'\n)+)(\s*\))")


def norm_model(blob_lines: str) -> typing.Optional[bytes]:
    try:
        b85 = "".join(eval(ln.strip()) for ln in blob_lines.strip().split("\n"))  # pylint: disable=eval-used
        obj = pickle.loads(gzip.decompress(base64.b85decode(b85)))

        class P(pickle.Pickler):
            def reducer_override(self, o: typing.Any) -> typing.Any:
                if type(o).__name__ == "MemoizationOperator" and hasattr(o, "_child"):
                    return (type(o), (o._child,))  # pylint: disable=protected-access
                return NotImplemented

        buf = io.BytesIO()
        P(buf, protocol=4).dump(obj)
        return buf.getvalue()
    except Exception:  # pylint: disable=broad-except
        return None


def sha_without_memoization_caches(content: bytes) -> typing.Optional[str]:
    """sha256 of the module text with every _MODEL_ blob replaced by the digest of its cache-free re-pickle; None if the
    file has no such blob or one cannot be decoded (then nothing can be explained by the known defect)"""
    try:
        text = content.decode("utf-8")
    except UnicodeDecodeError:
        return None
    blobs = BLOB.findall(text)
    if not blobs:
        return None
    digests = []
    for _, lines, _ in blobs:
        n = norm_model(lines)
        if n is None:
            return None
        digests.append(hashlib.sha256(n).hexdigest())
    it = iter(digests)
    return hashlib.sha256(BLOB.sub(lambda m: m.group(1) + "<model " + next(it) + ">" + m.group(3), text).encode("utf-8")).hexdigest()
