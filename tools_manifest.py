#!/venv/bin/python
"""Regenerates MANIFEST.json from the table below (keeps the file valid and consistent); run after editing."""
import json
import os

HERE = os.path.dirname(os.path.abspath(__file__))

NA = {
    "C01": "Serializer output is a pure function of (type, value, options): no schedule, clock, fault, history or I/O effect for a simulator to own; deciding it needs differential execution against a reference codec (input generation), which is not this technique (DESIGN 4).",
    "C02": "Deserializer result is a pure function of (type, byte string, options); 'every truncation' is a set of inputs to a routine that takes a complete buffer, not a fault at an instant. Truncated/garbage buffers are injected in C04, but only under the safety and state-independence oracle (DESIGN 4).",
    "C03": "Round-trip and cross-target agreement are metamorphic relations between pure functions of the input; nothing to schedule or inject (DESIGN 4).",
    "C05": "Exported constants and bounds are compile-time values of a pure mapping from the type definition; no nondeterminism or fault is involved (DESIGN 4).",
    "C06": "'Compiles cleanly' is a property of generated text for each input; the oracle is a compiler run with nothing to schedule or inject (DESIGN 4).",
    "C09": "Stropping is a pure string function. Its one ambient clause (same in every process) is exercised incidentally by C07, but the property is not claimed (DESIGN 4).",
    "C14": "Bit primitives are pure functions over a bounded space; the stated method is exhaustive enumeration, i.e. model checking, not seeded simulation (DESIGN 4).",
    "C17": "A compile-time static_assert relation between two option sets; nothing executes, nothing to simulate (DESIGN 4).",
    "C18": "Validation and conversion of generated Python data objects are deterministic per call and quantify over inputs and programs only; nothing meets I/O, time or faults (DESIGN 4).",
    "C19": "Differential rendering of two template engines on the same template and context: a pure function of the input (DESIGN 4).",
    "C20": "Well-formedness and escaping of generated HTML is a pure function of the namespace; no simulator-owned dimension (DESIGN 4).",
}

CHECKS = {
    "C08": {
        "level": "exploration",
        "technique": "deterministic simulation: real run recorded at the I/O seam vs --list-outputs/--list-inputs/--dry-run on empty and dirty simulated disks, under a whole-disk EROFS fault and permuted directory enumeration; seeded option-set and dirtying histories; ddmin-minimised replay files",
        "text": "For each seeded (namespace set, option set): a real nnvg run in a pristine directory is recorded by the audit-hook seam (files opened for writing, templates opened for reading); each listing/dry-run invocation must produce zero mutating events and leave the recursive snapshot of the whole sandbox (paths, sizes, modes, mtime_ns, hashes) unchanged, must succeed with the whole disk read-only (EROFS at every mutating call), --list-outputs must equal the created set on empty and dirty directories, and --list-inputs must contain every *.j2 the real run read and the DSDL dependency closure computed independently with pydsdl. Seeded sampling of options and dirtying histories, not proof.",
        "note": "Trusted: simkit, CPython audit events as the complete set of disk-touching calls, pydsdl for the dependency closure. 'Influences the output' is under-approximated by (templates read) + (DSDL closure). One known finding (upstream issue #58) is listed in KNOWN_FINDINGS.json.",
        "design_ref": "DESIGN.md section 2, C08",
    },
    "C11": {
        "level": "exploration",
        "technique": "deterministic simulation: real nnvg runs under scheduler-chosen ambient worlds (cwd, output location and spelling, dirty directories, enumeration order, hash seed) recorded at the I/O seam; containment, write-once, reference path set, cross-root reference resolution over two-run histories; in-run namespace-tree invariants",
        "text": "Claimed for the I/O-observable clauses. Every run is judged at the audit-hook seam: each mutating event must target a path inside the output directory (or create its parents) and the rest of the sandbox snapshot must be unchanged, for --outdir spelled relative, ./x/, ../y/x, absolute and with trailing slash under several cwds; no path is opened for writing twice; the created non-support files equal a 15-line reference path set built from nunavut's own path-stropping filter; after generating root A and then the roots it refers to into the same directory, every include/import target named by A's files exists. The tree clause is an in-run invariant on build_namespace_tree's result and is only sampled over generated namespace sets.",
        "note": "Trusted: simkit, nunavut's 'path' stropping filter (C09 not claimed), regular expressions recognising include/import targets, pydsdl. Names folded by one-way stropping are not generated.",
        "design_ref": "DESIGN.md section 2, C11",
    },
    "C12": {
        "level": "fault_enumeration",
        "technique": "deterministic simulation: seeded histories of nnvg invocations and directory edits on a simulated disk with fault injection (EACCES by a simulated unprivileged owner, I/O errors, torn writes, crash mid-run, failing external program); oracle = pristine-world reference run; ddmin-minimised replay files",
        "text": "Seeded search over histories of generator runs into one output directory, each run a fork()ed real nnvg under owned seams (audit-hook recorder/fault injector, wrapped open(), simulated non-root permission model, frozen clock, scheduler-chosen PYTHONHASHSEED). After every run: success implies reference bytes and requested modes for every generated file; --no-overwrite never changes a pre-existing file and reports conflicts; a fault-free overwriting run must succeed over any regular-file obstacle (progress once faults stop). Sampling, not proof: fault positions are placed inside the span in which files are produced and biased to first/middle/last.",
        "note": "Trusted: the simulator (simkit), CPython audit events as the complete set of mutating calls, tmpfs semantics, the POSIX-owner permission model (only as strict as POSIX), and nunavut itself as reference in a pristine directory (common-mode errors invisible). Crash model: process death, OS survives.",
        "design_ref": "DESIGN.md section 2, C12",
    },
}


def main() -> None:
    checks = []
    for pid in sorted(CHECKS):
        c = CHECKS[pid]
        checks.append(
            {
                "property_id": pid,
                "quick_cmd": "./check %s --tier quick" % pid,
                "thorough_cmd": "./check %s --tier thorough" % pid,
                "evidence_file": "evidence/%s.json" % pid,
                "replay_cmd_template": "./check %s --replay {path}" % pid,
                "engine": "simkit",
                "level_claimed": {"category": c["level"], "text": c["text"], "design_ref": c["design_ref"]},
                "level_note": c["note"],
                "technique": c["technique"],
            }
        )
    na = [{"property_id": k, "reason": v} for k, v in sorted(NA.items()) if k not in CHECKS]
    m = {
        "version": 1,
        "setup_cmd": "/venv/bin/python selftest/setup_check.py",
        "hooks": {
            "guard": "NUNAVUT_VERIF (nominal: no hook was added to /repo; every seam is an existing module attribute, public method or function argument patched from outside)",
            "enable": "nothing to enable; checks import nunavut from /repo/src (override with NUNAVUT_SRC) and patch seams in the simulated process only",
            "baseline_off_cmd": "cd /repo && /venv/bin/python -m pytest -ra -q -p no:cacheprovider --timeout=900 --continue-on-collection-errors",
            "source_commits": [],
            "add_only": True,
        },
        "engines": [
            {
                "name": "simkit",
                "path": "simkit/",
                "serves_properties": sorted(CHECKS),
                "kind_free_text": "deterministic simulation with fault injection: keyed-hash scheduler (one VERIF_SEED), fork-per-invocation process model with crash = os._exit, sys.addaudithook recorder/fault injector, simulated permission model, simulated clock, enumeration-order seam, hash-seeded worker interpreters, ddmin minimiser, literal replay files",
            }
        ],
        "checks": checks,
        "not_applicable": na,
        "notes": "Exit codes: 0 held (KNOWN-FINDING lines possible), 1 VIOLATION, 2 harness error. VERIF_SEED / VERIF_TIER / VERIF_BUDGET_S / VERIF_WORKERS are honoured. Scratch space is a mkdtemp under /dev/shm (fallback: system temp), removed at exit.",
    }
    with open(os.path.join(HERE, "MANIFEST.json"), "w", encoding="utf-8") as f:
        json.dump(m, f, indent=1)
        f.write("\n")


if __name__ == "__main__":
    main()
