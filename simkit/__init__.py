"""simkit: a small deterministic-simulation toolkit for OpenCyphal/nunavut (see /verif/DESIGN.md)."""
