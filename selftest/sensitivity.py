#!/venv/bin/python
"""
Sensitivity self-test (DESIGN 1.7): break a property on purpose in a scratch copy of /repo/src (outside /repo and
/verif, deleted afterwards) and confirm that the corresponding quick check reports a violation within its budget.

Two families: hand-written mutants (a plausible slip each), and reverts of the fix: commits in /repo (the check must
re-discover the original defect). The unchanged tree is never touched.

usage: selftest/sensitivity.py [--only NAME[,NAME]] [--list] [--reverts] [--jobs N]
"""
import argparse
import json
import os
import shutil
import subprocess
import sys
import tempfile
import time

HERE = os.path.dirname(os.path.dirname(os.path.abspath(__file__)))
REPO = os.environ.get("VERIF_REPO", "/repo")  # a frozen worktree while something else patches /repo

# name, property, file (relative to src/), old text, new text
MUTANTS = [
    ("overwrite-drop-chmod", "C12", "nunavut/jinja/__init__.py", "output_path.chmod(output_path.stat().st_mode | 0o220)", "pass"),
    ("overwrite-open-append", "C12", "nunavut/jinja/__init__.py", 'with open(str(output_path), "w", encoding="utf-8") as output_file:', 'with open(str(output_path), "a", encoding="utf-8") as output_file:'),
    ("no-overwrite-ignored-for-support-templates", "C12", "nunavut/jinja/__init__.py", "        template_gen = template.generate()\n        if not is_dryrun:\n            _reset_line_post_processors(self._post_processors)\n            self._generate_code(output_path, template, template_gen, allow_overwrite)", "        template_gen = template.generate()\n        if not is_dryrun:\n            _reset_line_post_processors(self._post_processors)\n            self._generate_code(output_path, template, template_gen, True)"),
    ("file-mode-umask-applied", "C12", "nunavut/_postprocessors.py", "generated.chmod(self._file_mode)", "generated.chmod(self._file_mode & ~0o022)"),
    ("setfilemode-skips-writable", "C12", "nunavut/_postprocessors.py", "generated.chmod(self._file_mode)", "generated.chmod(self._file_mode) if not (generated.stat().st_mode & 0o200 and self._file_mode & 0o200) else None"),
    ("dry-run-creates-directories", "C08", "nunavut/jinja/__init__.py", "        template_gen = template.generate(T=input_type)\n        if not is_dryrun:", "        template_gen = template.generate(T=input_type)\n        output_path.parent.mkdir(parents=True, exist_ok=True)\n        if not is_dryrun:"),
    ("list-outputs-forgets-namespace-types-flag", "C08", "nunavut/cli/runners.py", "            self._stdout_lister(self._generator.generate_all(is_dryrun=True), str)", "            self._stdout_lister([p for p in self._generator.generate_all(is_dryrun=True) if p.stem != self._args.namespace_output_stem], str)"),
    ("list-inputs-drops-user-subdir-templates", "C08", "nunavut/jinja/loaders.py", 'glob("**/*{}".format(TEMPLATE_SUFFIX))', 'glob("*{}".format(TEMPLATE_SUFFIX))'),
    ("unique-name-reset-only-once", "C10", "nunavut/jinja/__init__.py", "        UniqueNameGenerator.reset()\n", "        UniqueNameGenerator._singleton or UniqueNameGenerator.reset()  # pylint: disable=protected-access\n"),
    ("limiter-reset-dropped-for-types", "C10", "nunavut/jinja/__init__.py", "        template_gen = template.generate(T=input_type)\n        if not is_dryrun:\n            _reset_line_post_processors(self._post_processors)", "        template_gen = template.generate(T=input_type)\n        if not is_dryrun:\n            pass"),
    ("includes-unsorted", "C07", "nunavut/lang/_common.py", "            return sorted(path_list_with_punctuation + self._language.get_includes(dep_types))", "            return path_list_with_punctuation + self._language.get_includes(dep_types)"),
    ("c-header-timestamp-ungated", "C07", "nunavut/lang/c/templates/base.j2", "// Source file:   {{ T.source_file_path.name }}", "// Source file:   {{ T.source_file_path.name }}\n// Generated at:  {{ now_utc }} UTC"),
    ("nested-namespaces-unsorted", "C07", "nunavut/_namespace.py", "return iter(sorted(self._nested_namespaces, key=lambda namespace: namespace.full_namespace))", "return iter(self._nested_namespaces)"),
    ("newline-pattern-lf-only", "C15", "nunavut/jinja/__init__.py", 're.compile(r"\\n|\\r\\n", flags=re.MULTILINE)', 're.compile(r"\\n", flags=re.MULTILINE)'),
    ("limiter-counts-whitespace-only-lines", "C15", "nunavut/_postprocessors.py", "        if len(line_and_lineend[0]) == 0:\n            self._empty_line_count += 1", "        if len(line_and_lineend[0].strip()) == 0:\n            self._empty_line_count += 1"),
    ("held-cr-dropped-at-end", "C15", "nunavut/jinja/__init__.py", "    if held:\n        yield held\n", "    if held and False:\n        yield held\n"),
    ("line-buffer-splits-like-splitlines", "C15", "nunavut/jinja/__init__.py", 're.compile(r"\\n|\\r\\n", flags=re.MULTILINE)', 're.compile(r"\\r\\n|[\\n\\x0b\\x0c\\x1c-\\x1e\\x85\\u2028\\u2029]", flags=re.MULTILINE)'),
    # (the revert of fix 10c5774 no longer applies as a reverse patch - later fixes touch the same hunk; this is its effect)
    ("crlf-hold-back-bypassed", "C15", "nunavut/jinja/__init__.py", "        for part in _hold_back_split_line_endings(template_gen):", "        for part in template_gen:"),
    ("trim-strips-spaces-only", "C15", "nunavut/_postprocessors.py", 're.compile(r"\\s+$")', 're.compile(r" +$")'),
    ("deep-update-shallow-copy", "C13", "nunavut/_utilities.py", "target = copy.deepcopy(source)", "target = copy.copy(source)"),
    ("default-value-displaces-explicit", "C13", "nunavut/_utilities.py", "            if isinstance(value, DefaultValue) and not isinstance(target[key], DefaultValue):\n                return target[key]", "            if isinstance(value, DefaultValue) and not isinstance(target[key], (DefaultValue, bool)):\n                return target[key]"),
    ("config-loader-shared-between-builders", "C13", "nunavut/lang/_language.py", "        if self._config is None:\n            self._config = self._load_config()\n        return self._config", "        if self._config is None:\n            self._config = self._cached_config()\n        return self._config\n\n    @classmethod\n    @functools.lru_cache()\n    def _cached_config(cls) -> LanguageConfig:\n        return cls._load_config()"),
    ("loader-order-swapped", "C16", "nunavut/jinja/loaders.py", "        if self._fsloader is not None:\n            try:\n                return typing.cast(\n                    typing.Tuple[typing.Any, str, typing.Callable[..., bool]],\n                    self._fsloader.get_source(environment, template),\n                )\n            except TemplateNotFound:\n                if self._package_loader is None:\n                    raise", "        if self._fsloader is not None and self._package_loader is None:\n            try:\n                return typing.cast(\n                    typing.Tuple[typing.Any, str, typing.Callable[..., bool]],\n                    self._fsloader.get_source(environment, template),\n                )\n            except TemplateNotFound:\n                if self._package_loader is None:\n                    raise"),
    ("template-lookup-cache-shared-by-all-loaders", "C16", "nunavut/jinja/loaders.py", "        self._type_to_template_lookup_cache: typing.Dict[pydsdl.Any, pathlib.Path] = dict()\n", "        self._type_to_template_lookup_cache = DSDLTemplateLoader.__dict__.setdefault('_shared', {}) if False else _SHARED_LOOKUP_CACHE\n"),
    ("template-lookup-skips-direct-base", "C16", "nunavut/jinja/loaders.py", "                    if base_type != object and base_type not in discovered:", "                    if base_type != object and base_type not in discovered and base_type.__name__ != 'CompositeType':"),
    ("instance-test-alias-rstrip", "C16", "nunavut/jinja/__init__.py", '            tests[root_name_lower[:-4]] = _field_is_instance', '            tests[root_name_lower.rstrip("type")] = _field_is_instance'),
    ("instance-test-ignores-attribute-data-type", "C16", "nunavut/jinja/__init__.py", "                return isinstance(field_or_datatype.data_type, root)", "                return isinstance(field_or_datatype.data_type, root) and not isinstance(field_or_datatype, pydsdl.PaddingField)"),
    ("c-deserialize-drops-count-check", "C04", "nunavut/lang/c/templates/deserialization.j2", "    if ({{ reference }}.count > {{ t.capacity }}U)\n{% endif %}\n    {\n        return -NUNAVUT_ERROR_REPRESENTATION_BAD_ARRAY_LENGTH;\n    }", "    if ({{ reference }}.count > {{ t.capacity + 1 }}U)\n{% endif %}\n    {\n        return -NUNAVUT_ERROR_REPRESENTATION_BAD_ARRAY_LENGTH;\n    }"),
    ("cpp-emplace-without-destroy", "C04", "nunavut/lang/cpp/templates/_fields_as_union.j2", "            destroy_current();\n            typename alternative<I>::type& result = do_emplace<I>(v...);", "            typename alternative<I>::type& result = do_emplace<I>(v...);"),
    ("c-getbits-ignores-buffer-end", "C04", "nunavut/lang/c/support/serialization.j2", "    const {{ typename_unsigned_bit_length }} sat_bits = nunavutSaturateBufferFragmentBitLength({# -#}\n        buf_size_bytes, off_bits, len_bits);", "    const {{ typename_unsigned_bit_length }} sat_bits = len_bits; (void) buf_size_bytes;"),
    ("cpp-vla-clear-dropped", "C04", "nunavut/lang/cpp/templates/deserialization.j2", "        {{ reference }}.clear();\n", ""),
    ("include-path-not-stropped", "C11", "nunavut/lang/_common.py", '            return [language.filter_id(x, id_type="path") for x in dt.full_namespace.split(".")]', '            return [language.filter_id(x, id_type="path") if i else x for i, x in enumerate(dt.full_namespace.split("."))]'),
    ("empty-intermediate-namespace-skipped", "C11", "nunavut/_namespace.py", "            for i in range(len(dsdl_type.name_components) - 1, 0, -1):", "            for i in range(len(dsdl_type.name_components) - 1, max(0, len(dsdl_type.name_components) - 3), -1):"),
    ("support-written-to-cwd-when-relative", "C11", "nunavut/jinja/__init__.py", "        target_path = pathlib.Path(self.namespace.get_support_output_folder()) / self._sub_folders", "        target_path = pathlib.Path(pathlib.PurePath(self.namespace.get_support_output_folder()).name) / self._sub_folders if not pathlib.PurePath(self.namespace.get_support_output_folder()).is_absolute() and len(pathlib.PurePath(self.namespace.get_support_output_folder()).parts) > 2 else pathlib.Path(self.namespace.get_support_output_folder()) / self._sub_folders"),
]


def apply_mutant(src: str, rel: str, old: str, new: str) -> bool:
    p = os.path.join(src, rel)
    with open(p, "r", encoding="utf-8") as f:
        text = f.read()
    if old is None or text.count(old) != 1:
        return False
    text = text.replace(old, new)
    if "_SHARED_LOOKUP_CACHE" in new:
        text += "\n\n_SHARED_LOOKUP_CACHE: typing.Dict[typing.Any, pathlib.Path] = {}\n"
    with open(p, "w", encoding="utf-8") as f:
        f.write(text)
    return True


def run_check(prop: str, src: str, budget: int = 400) -> tuple:
    env = dict(os.environ)
    env.update({"NUNAVUT_SRC": src, "VERIF_NO_EVIDENCE": "1", "VERIF_QUIET": "1", "VERIF_MINIMISE_RUNS": "0", "VERIF_SEED": os.environ.get("VERIF_SEED", "20260926")})
    t0 = time.time()
    try:
        p = subprocess.run([os.path.join(HERE, "check"), prop, "--tier", "quick"], env=env, stdout=subprocess.PIPE, stderr=subprocess.STDOUT, cwd=HERE, timeout=budget, check=False)
        out = p.stdout.decode("utf-8", "replace")
        rc = p.returncode
    except subprocess.TimeoutExpired as ex:
        out = (ex.stdout or b"").decode("utf-8", "replace")
        rc = -1
    sigs = sorted({ln.split("signature: ")[1].strip() for ln in out.split("\n") if "signature: " in ln})
    # replays written while testing a mutant are not findings on the real tree
    for ln in out.split("\n"):
        if ln.startswith("VIOLATION ") and "replay=" in ln:
            try:
                os.remove(ln.split("replay=")[1].strip())
            except OSError:
                pass
    return rc, sigs, time.time() - t0




def main() -> int:
    ap = argparse.ArgumentParser()
    ap.add_argument("--only", default="")
    ap.add_argument("--list", action="store_true")
    ap.add_argument("--reverts", action="store_true", help="also revert each fix: commit of /repo and expect the check of its property to fail")
    ap.add_argument("--out", default=os.path.join(HERE, "selftest", "sensitivity_results.json"))
    args = ap.parse_args()
    if args.list:
        for m in MUTANTS:
            print(m[0], m[1], m[2])
        return 0
    only = set(x for x in args.only.split(",") if x)
    results = []
    base = tempfile.mkdtemp(prefix="nvmut-", dir="/dev/shm" if os.path.isdir("/dev/shm") else None)
    try:
        jobs = []
        for name, prop, rel, old, new in MUTANTS:
            if only and name not in only:
                continue
            jobs.append(("mutant", name, prop, rel, old, new))
        if args.reverts:
            known = json.load(open(os.path.join(HERE, "KNOWN_FINDINGS.json")))
            for e in known["findings"]:
                if e.get("status") == "fixed" and (not only or e["key"] in only):
                    jobs.append(("revert", e["key"], e["property"], e["commit"], None, None))
        for kind, name, prop, a, old, new in jobs:
            src = os.path.join(base, "src")
            shutil.rmtree(src, ignore_errors=True)
            shutil.copytree(os.path.join(REPO, "src"), src, ignore=shutil.ignore_patterns("__pycache__"))
            if kind == "mutant":
                ok = apply_mutant(src, a, old, new)
            else:
                diff = subprocess.run(["git", "-C", REPO, "show", "--format=", a, "--", "src"], stdout=subprocess.PIPE, check=True).stdout
                ok = subprocess.run(["patch", "-R", "-p2", "-d", src, "--quiet"], input=diff, check=False).returncode == 0
            if not ok:
                print("%-50s %s  NOT APPLICABLE (anchor text not found exactly once)" % (name, prop), flush=True)
                results.append({"name": name, "kind": kind, "property": prop, "applied": False})
                continue
            rc, sigs, dt = run_check(prop, src)
            verdict = "DETECTED" if rc == 1 else ("MISSED" if rc == 0 else "ERROR rc=%d" % rc)
            print("%-50s %s  %-9s %5.0fs  %s" % (name, prop, verdict, dt, "; ".join(sigs)[:160]), flush=True)
            results.append({"name": name, "kind": kind, "property": prop, "applied": True, "exit": rc, "detected": rc == 1, "signatures": sigs, "seconds": round(dt, 1)})
    finally:
        shutil.rmtree(base, ignore_errors=True)
    with open(args.out, "w", encoding="utf-8") as f:
        json.dump(results, f, indent=1)
    missed = [r["name"] for r in results if r.get("applied") and not r.get("detected")]
    print("sensitivity: %d applied, %d detected, missed: %s" % (sum(1 for r in results if r.get("applied")), sum(1 for r in results if r.get("detected")), missed))
    return 1 if missed else 0


if __name__ == "__main__":
    sys.exit(main())
