"""
A worker: a single-threaded interpreter started with a scheduler-chosen PYTHONHASHSEED that reads JSON job lines
on stdin and answers on stdout. Every case runs in a fork()ed child of this (warm) process, so cases cannot
influence each other and a dying case cannot take the worker down.
"""
import faulthandler
import importlib
import json
import os
import shutil
import sys
import traceback


def _setup_paths() -> None:
    here = os.path.dirname(os.path.dirname(os.path.abspath(__file__)))
    if here not in sys.path:
        sys.path.insert(0, here)
    src = os.environ.get("NUNAVUT_SRC", "/repo/src")
    if src in sys.path:
        sys.path.remove(src)
    sys.path.insert(0, src)


def load_sim(prop: str):  # type: ignore
    return importlib.import_module("sims.%s" % prop.lower())


def main() -> int:
    _setup_paths()
    sys.dont_write_bytecode = True
    from simkit import proc

    out = os.fdopen(os.dup(1), "w", buffering=1)
    # anything nunavut or a sim prints by accident must not corrupt the protocol
    devnull = os.open(os.devnull, os.O_WRONLY)
    os.dup2(devnull, 1)
    faulthandler.enable()
    scratch_root = os.environ["VERIF_SCRATCH"]
    warmed = False
    for line in sys.stdin:
        line = line.strip()
        if not line:
            continue
        job = json.loads(line)
        if job.get("op") == "quit":
            break
        jid = job["id"]
        try:
            sim = load_sim(job["prop"])
            if not warmed:
                if getattr(sim, "WARM_NUNAVUT", True):
                    proc.warm_imports()
                warmed = True
            scratch = os.path.join(scratch_root, "w%d" % os.getpid(), "j%d" % jid)
            shutil.rmtree(scratch, ignore_errors=True)
            os.makedirs(scratch)
            ctx = {"scratch": scratch, "tier": job.get("tier", "quick"), "hash_seed": os.environ.get("PYTHONHASHSEED")}
            try:
                if getattr(sim, "FORK_PER_CASE", True):
                    result = proc.run_in_fork(
                        lambda: sim.run_case(job["case"], ctx), timeout_s=float(job.get("timeout_s", 600))
                    )
                else:
                    result = sim.run_case(job["case"], ctx)
            finally:
                shutil.rmtree(scratch, ignore_errors=True)
            reply = {"id": jid, "result": result}
        except proc.HarnessError as ex:
            reply = {"id": jid, "harness": str(ex)[-6000:]}
        except BaseException as ex:  # pylint: disable=broad-except
            reply = {"id": jid, "harness": "%s: %s\n%s" % (type(ex).__name__, ex, traceback.format_exc(limit=20))}
        out.write(json.dumps(reply) + "\n")
        out.flush()
    return 0


if __name__ == "__main__":
    sys.exit(main())
