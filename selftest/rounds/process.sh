#!/bin/bash
# usage: process.sh <round> <ID>   -- confirm both changes of one sub-agent, measure first shot, then the current checks
R=$1; ID=$2
cd /verif
for x in A B; do
  name=$ID-$R$x
  timeout 3000 /venv/bin/python selftest/seeded.py confirm /tmp/out$R-$ID/$x $ID $name /tmp/wt$R-$ID 2>&1 | grep -v conda | tail -1
  if [ -d seeded/$name ]; then
    selftest/rounds/first_shot.sh $name $ID 2>&1 | grep -v conda
  fi
done
