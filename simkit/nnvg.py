"""
Invocation-level world shared by C07, C08, C11 and C12: where things are in the sandbox, how an option set
becomes an ``nnvg`` command line, and the pristine-world reference run.
"""
import hashlib
import os
import shutil
import typing

from . import proc, snapshot
from .rng import Rng

LANG_EXT = {"c": ".h", "cpp": ".hpp", "py": ".py", "html": ".html"}
FROZEN_CLOCK = {"start": 1750000000.0, "deltas": [0.0]}


class World:
    """Absolute locations inside one sandbox ("disk")."""

    def __init__(self, sandbox: str, in_rel: str = "in", out_rel: str = "out", cwd_rel: str = "cwd", tpl_rel: str = "tpl"):
        self.sandbox = os.path.abspath(sandbox)
        self.in_dir = os.path.join(self.sandbox, in_rel)
        self.out_dir = os.path.normpath(os.path.join(self.sandbox, out_rel))
        self.cwd = os.path.normpath(os.path.join(self.sandbox, cwd_rel))
        self.tpl_dir = os.path.normpath(os.path.join(self.sandbox, tpl_rel))
        for d in (self.in_dir, self.cwd):
            os.makedirs(d, exist_ok=True)

    def spell(self, path: str, how: str) -> str:
        if how == "abs":
            return path
        if how == "abs_slash":
            return path + "/"
        if how == "child_dotdot":
            # "<dir>/<child>/..": the same directory, but its name is not the last component of the spelling
            kids = sorted(k for k in os.listdir(path) if os.path.isdir(os.path.join(path, k))) if os.path.isdir(path) else []
            return os.path.join(path, kids[0], "..") if kids else path
        if how == "symlink_alias":
            # a symbolic link with ANOTHER name that points to the directory
            # (named after the path below the sandbox: the name of the scratch directory is not a scheduler decision)
            link = os.path.join(self.sandbox, "alias-" + hashlib.sha256(os.path.relpath(path, self.sandbox).encode("utf-8")).hexdigest()[:8])
            if not os.path.islink(link):
                os.symlink(path, link)
            return link
        rel = os.path.relpath(path, self.cwd)
        if how == "rel":
            return rel
        if how == "rel_dot":
            return "./" + rel
        if how == "rel_slash":
            return rel + "/"
        if how == "dotdot":
            return os.path.join("..", os.path.basename(self.cwd), rel)  # leaves cwd and comes back
        if how in ("symlink_dotdot", "symlink_dotdot_rel"):
            # <sandbox>/lnk-N is a symbolic link to a directory NEXT TO the target: "lnk-N/../leaf" is the target for
            # the kernel, while a lexical normalisation would give "<sandbox>/leaf"
            parent, leaf = os.path.split(path.rstrip(os.sep))
            os.makedirs(os.path.join(parent, "zz-linktarget"), exist_ok=True)
            link = os.path.join(self.sandbox, "lnk-" + hashlib.sha256(os.path.relpath(parent, self.sandbox).encode("utf-8")).hexdigest()[:6])
            if not os.path.islink(link):
                os.symlink(os.path.join(parent, "zz-linktarget"), link)
            spelled = os.path.join(link, "..", leaf)
            return spelled if how == "symlink_dotdot" else os.path.join(os.path.relpath(link, self.cwd), "..", leaf)
        raise ValueError(how)

    def argv(self, opts: dict) -> typing.List[str]:
        a = ["nnvg"]
        lang = opts["lang"]
        a += ["--target-language", lang]
        if lang in ("html", "cpp", "js") or opts.get("experimental"):
            a.append("--experimental-languages")
        a += ["--outdir", self.spell(opts.get("out_abs") or self.out_dir, opts.get("outdir_spelling", "abs"))]
        for lk in opts.get("lookups", []):
            a += ["-I", self.spell(os.path.join(self.in_dir, lk), opts.get("in_spelling", "abs"))]
        mode = opts.get("mode", "generate")
        if mode == "dry_run":
            a.append("--dry-run")
        elif mode == "list_outputs":
            a.append("--list-outputs")
        elif mode == "list_inputs":
            a.append("--list-inputs")
        elif mode == "list_configuration":
            a.append("--list-configuration")
        if opts.get("file_mode") is not None:
            # documented: any literal int() accepts with base 0 - 0o644, 420 (decimal), 0x1a4, 0b110100100
            sp = opts.get("file_mode_spelling", "oct")
            a += ["--file-mode", {"oct": oct, "dec": str, "hex": hex, "bin": bin}[sp](opts["file_mode"])]
        if opts.get("no_overwrite"):
            a.append("--no-overwrite")
        if opts.get("omit_ser"):
            a.append("--omit-serialization-support")
        if opts.get("gen_support"):
            a += ["--generate-support", opts["gen_support"]]
        if opts.get("ns_types"):
            a.append("--generate-namespace-types")
        if opts.get("ext") is not None:
            a += ["--output-extension", opts["ext"]]
        if opts.get("ns_stem"):
            a += ["--namespace-output-stem", opts["ns_stem"]]
        if opts.get("pp_trim"):
            a.append("--pp-trim-trailing-whitespace")
        if opts.get("pp_max_empty") is not None:
            a += ["--pp-max-emptylines", str(opts["pp_max_empty"])]
        if opts.get("pp_prog"):
            a += ["--pp-run-program", "fakefmt"]
        if opts.get("std"):
            a += ["--language-standard", opts["std"]]
        if opts.get("templates"):
            a += ["--templates", self.spell(os.path.join(self.tpl_dir, opts["templates"]), opts.get("in_spelling", "abs"))]
        if opts.get("support_templates"):
            a += ["--support-templates", self.spell(os.path.join(self.tpl_dir, opts["support_templates"]), opts.get("in_spelling", "abs"))]
        if opts.get("trim_blocks"):
            a.append("--trim-blocks")
        if opts.get("lstrip_blocks"):
            a.append("--lstrip-blocks")
        if opts.get("endianness"):
            a += ["--target-endianness", opts["endianness"]]
        if opts.get("asserts"):
            a.append("--enable-serialization-asserts")
        if opts.get("omit_float"):
            a.append("--omit-float-serialization-support")
        if opts.get("override_varlen"):
            a.append("--enable-override-variable-array-capacity")
        if opts.get("allow_unregulated"):
            a.append("--allow-unregulated-fixed-port-id")
        if opts.get("auditing"):
            a.append("--embed-auditing-info")
        if opts.get("configs"):
            # (--configuration takes any number of values: another flag has to follow before the positional argument)
            a += ["--configuration"] + list(opts["configs"]) + ["--verbose"]
        a += opts.get("extra_argv", [])
        if opts.get("root") is not None:
            a.append(self.spell(os.path.join(self.in_dir, opts["root"]), opts.get("root_spelling") or opts.get("in_spelling", "abs")))
        return a

    def invocation(self, opts: dict, **plan: typing.Any) -> dict:
        inv = {
            "sandbox": self.sandbox,
            "cwd": self.cwd,
            "argv": self.argv(opts),
            "umask": 0o022,
            "clock": dict(FROZEN_CLOCK),
            "perm_model": True,
            "sort_enum": True,
            "env_unset": ["DSDL_INCLUDE_PATH"],
        }  # type: typing.Dict[str, typing.Any]
        if opts.get("pp_prog"):
            inv["extprog"] = opts["pp_prog"] if opts["pp_prog"] in ("rename", "crlf") else "ok"
        if opts.get("extra_support"):
            # the language's support package ships a plain header (copied, not rendered); mode as installed
            d = os.path.join(self.sandbox, "pkg-extra")
            p = os.path.join(d, "vendor_config.h")
            if not os.path.exists(p):
                os.makedirs(d, exist_ok=True)
                with open(p, "w", encoding="utf-8", newline="") as f:
                    f.write("/* vendor configuration (plain support header, copied) */\n#define VENDOR_CONFIG 1   \n\n\n\n/* end */\n")
                os.chmod(p, 0o444 if opts["extra_support"] == "readonly" else 0o644)
            inv["extra_support_files"] = {"lang": opts["lang"], "paths": [p]}
        inv.update(plan)
        return inv


def succeeded(res: dict) -> bool:
    return bool(res["status"] == "ok")


def reference_run(world: World, opts: dict, cache: dict, **plan: typing.Any) -> dict:
    """
    What a fault-free run into an *empty* directory at the same path under the same ambient state produces
    (DESIGN 1.4). The current output directory is moved aside and restored afterwards.
    Returns {"ok": bool, "files": {rel: (sha, mode)}, "res": invocation result}.
    """
    inv = world.invocation(opts, **plan)
    # (everything that decides the outcome: the command line, the ambient state, and what the option set adds to the
    # plan without showing on the command line - the style of the external program, what the support package ships)
    key = repr((inv["argv"], inv["cwd"], inv["umask"], sorted(plan.items()), inv.get("extprog"), inv.get("extra_support_files")))
    if key in cache:
        return typing.cast(dict, cache[key])
    out = opts.get("out_abs") or world.out_dir
    aside = out + ".aside"
    had = os.path.lexists(out)
    if had:
        os.rename(out, aside)
    try:
        inv.pop("fault", None)
        res = proc.run_invocation(inv)
        snap = snapshot.snapshot(out, with_mtime=False)
        ref = {"ok": succeeded(res), "files": snapshot.files_of(snap), "res": res, "dirs": [k for k, v in snap.items() if v[0] == "d"]}
    finally:
        if os.path.lexists(out):
            _force_rmtree(out)
        if had:
            os.rename(aside, out)
    cache[key] = ref
    return ref


def _force_rmtree(path: str) -> None:
    for d, dirs, _files in os.walk(path):
        for n in dirs:
            try:
                os.chmod(os.path.join(d, n), 0o755)
            except OSError:
                pass
    shutil.rmtree(path, ignore_errors=True)


def pick_fault(r: Rng, ref_res: dict, kinds: typing.Sequence[str]) -> typing.Optional[dict]:
    """Place one fault *inside* the span in which the reference run produced files; biased to first/middle/last."""
    kind = r.choice(list(kinds))
    M = int(ref_res.get("mut_count", 0))
    wpf = list(ref_res.get("writes_per_file", []))

    def biased(n: int) -> int:
        if n <= 1:
            return 0
        return r.weighted([(0, 2), (n - 1, 2), (n // 2, 1), (r.below(n), 4)])

    if kind in ("oserror", "crash"):
        if M == 0:
            return None
        f = {"kind": kind, "at": biased(M)}
        if kind == "oserror":
            # (EPERM / EACCES: the call is refused although the mode bits would allow it - a file system that does not
            # support it, an immutable attribute, a bind mount)
            f["errno"] = r.choice(["ENOSPC", "EIO", "EMFILE", "EROFS", "EINTR", "EDQUOT", "EPERM", "EACCES"])
        return f
    if kind in ("write_oserror", "write_crash"):
        files = [i for i, n in enumerate(wpf) if n > 0]
        if not files:
            return None
        fi = files[biased(len(files))]
        f = {"kind": kind, "file": fi, "write": biased(wpf[fi]), "partial": r.choice([0, 50, 100]), "flush": r.chance(2, 3)}
        if kind == "write_oserror":
            f["errno"] = r.choice(["ENOSPC", "EIO", "EDQUOT"])
        return f
    if kind == "refused_chmod":
        n = sum(1 for e in ref_res.get("events", []) if isinstance(e, list) and len(e) > 1 and e[1] == "os.chmod")
        return {"kind": "oserror_on", "on": "os.chmod", "nth": biased(n) if n else r.below(6), "errno": r.choice(["EPERM", "EACCES"])}
    if kind == "extprog_fail":
        n = len(wpf)
        if n == 0:
            return None
        return {"kind": kind, "at": biased(n), "how": r.choice(["exit1", "killed"])}
    raise ValueError(kind)


def sig_kind(path: str) -> str:
    """A coarse, stable classification of a generated file for signatures: support / namespace / type."""
    base = os.path.basename(path)
    if "/support/" in "/" + path or base.startswith("nunavut_support") or path.startswith("nunavut/"):
        return "support"
    stem = os.path.splitext(base)[0]
    if stem in ("_namespace_", "__init__", "index", "_"):
        return "namespace"
    return "type"


def reduce_dsdl(case: dict) -> typing.Iterator[dict]:
    files = case["dsdl"]["files"]
    if len(files) <= 1:
        return
    for rel in sorted(files, reverse=True):
        parts = rel.split("/")
        fn = parts[-1].split(".")
        if fn[0].isdigit():
            fn = fn[1:]
        ref = ".".join(parts[:-1] + [fn[0]]) + ".%s.%s" % (fn[1], fn[2])
        if any(ref in txt for other, txt in files.items() if other != rel):
            continue
        c = dict(case)
        c["dsdl"] = {"roots": case["dsdl"]["roots"], "files": {k: v for k, v in files.items() if k != rel}}
        yield c


def event_digest(res: dict) -> str:
    """Digest of one invocation's observable schedule: status, injected fault and the ordered events inside the
    sandbox (kind, relative path). Content hashes are deliberately not part of it (absolute scratch paths can leak
    into generated bytes - that is C07's subject - and the scratch directory name is not a scheduler decision)."""
    import hashlib

    h = hashlib.sha256()
    h.update(repr((res.get("status"), res.get("fault_fired"))).encode())
    for e in res.get("events", []):
        if isinstance(e, list) and len(e) >= 3 and str(e[2]).startswith("@"):
            h.update(repr((e[1], e[2])).encode())
    return h.hexdigest()[:16]
