#!/bin/bash
# usage: first_shot.sh <name> <prop>   -- outcome of the checks as committed when the round was launched
# (frozen worktree of /verif at /dev/shm/verif-frozen, scratch worktree of /repo's HEAD at /dev/shm/repo-head)
name=$1; prop=$2
cd /dev/shm/repo-head && git status --porcelain | grep -q . && { echo "repo-head dirty"; exit 9; }
git -C /dev/shm/repo-head apply /verif/seeded/$name/patch.diff || exit 9
cd ${VERIF_FROZEN:-/dev/shm/verif-frozen}
NUNAVUT_SRC=/dev/shm/repo-head/src VERIF_NO_EVIDENCE=1 VERIF_QUIET=1 VERIF_MINIMISE_RUNS=10 timeout 3000 ./check $prop --tier quick > /dev/shm/first-$name.log 2>&1
rc=$?
git -C /dev/shm/repo-head checkout -- . ; git -C /dev/shm/repo-head clean -fdq src
echo "FIRST-SHOT $name rc=$rc $(grep -o 'signature: .*' /dev/shm/first-$name.log | sort -u | head -4 | tr '\n' ';' | cut -c1-300)"
