#!/venv/bin/python
"""
Writes the briefs for one round of independent sub-agents (one per claimed property, two changes each).

  selftest/rounds/round_brief.py <round-number> <focus.json>

creates, for every claimed property, a scratch worktree /tmp/wt<R>-<ID> of /repo's HEAD and /tmp/out<R>-<ID>/{brief.txt,property.txt}.
The brief contains the property text, the one-line list of ideas earlier rounds already used (taken.json) and a focus paragraph -
nothing else from /verif. The sub-agent is started with "Read /tmp/out<R>-<ID>/brief.txt and do what it says".
"""
import json
import os
import subprocess
import sys

HERE = os.path.dirname(os.path.abspath(__file__))
VERIF = os.path.dirname(os.path.dirname(HERE))

TMPL = '''You are helping to evaluate a verification effort by playing the role of a developer who accidentally introduces a realistic regression into the OpenCyphal/nunavut code generator (Python; DSDL -> C/C++/Python/HTML transpiler).

Your scratch copy of the repository is the git worktree at /tmp/wt@R@-@ID@ (work ONLY there and in /tmp/out@R@-@ID@; never touch /repo; do not read or use anything under /verif - your work must be independent of it; do not use `git stash` - the stash is shared between worktrees). Python is /venv/bin/python. To make the worktree's sources (not the installed ones) be imported, always run with PYTHONPATH=/tmp/wt@R@-@ID@/src, for example:

  cd /tmp/wt@R@-@ID@ && PYTHONPATH=/tmp/wt@R@-@ID@/src /venv/bin/python -m pytest -q -p no:cacheprovider --timeout=900 --continue-on-collection-errors --no-header -q 2>&1 | tail -5      (~30-90 s)
  PYTHONPATH=/tmp/wt@R@-@ID@/src /venv/bin/python -m nunavut --help          (this is the `nnvg` command line; `cpp` and `html` targets need --experimental-languages)

The sandbox is offline and is shared with other jobs (it may be slow at times). On the unchanged worktree 415 tests pass and about 63 fail for an unrelated reason (the CLI tests shell out to `coverage`, which is not installed); the list of tests that must keep passing is the "stable_pass" array in /root/.vp/BASELINE.json. IMPORTANT: the doctest-style test ids in that list are keyed by LINE NUMBER (e.g. "src.nunavut.jinja.loaders::line:198,column:1"), so a change that adds or removes lines ABOVE a docstring example in a Python file under src/nunavut makes that test "disappear". Keep the number of lines unchanged in the part of any .py file that precedes a docstring example (edit lines in place, or add code only below the last docstring example of that file). Template files (*.j2) and YAML files have no such restriction. clang/clang++ (with ASan/UBSan) and gcc are available if you need to compile generated C/C++.

The semantic property the code is supposed to satisfy is in /tmp/out@R@-@ID@/property.txt. Read it, then read the code it is anchored in.

Earlier colleagues already produced these regressions for this property - do NOT repeat them or close variants of them: @TAKEN@. @FOCUS@

YOUR TASK: produce TWO different, independent source changes (call them A and B), each of which BREAKS the property while
 (1) still compiling/importing and keeping every test of the stable_pass list passing (verify by running the suite with each change applied on its own), and
 (2) being a plausible slip a maintainer could make (a refactoring, an "optimisation", a wrong condition, an off-by-one, a dropped call, a cache added in the wrong place, a changed default, ...), not sabotage that looks deliberate, and
 (3) needing something SPECIFIC to manifest - a particular multi-step sequence of operations, a fault or crash at a particular point, an unusual but valid input, a particular ordering/permutation, a specific option combination, or two cooperating code sites that each look fine alone - NOT something that ordinary single use of the tool would expose at once. Use different files / mechanisms for A and B.
 The change must break the property AS STATED (re-read the statement before you settle on an idea): a behaviour change the statement does not speak about is of no use.

For EACH change produce, in /tmp/out@R@-@ID@/A/ and /tmp/out@R@-@ID@/B/:
  - patch.diff      : `git -C /tmp/wt@R@-@ID@ diff` of that change alone (relative to the unchanged worktree HEAD);
  - demo.py (or demo.sh): a small self-contained program that exits 0 on the unchanged worktree and exits non-zero (printing what went wrong) with the change applied. It must take the source tree to use from the environment variable NUNAVUT_SRC (put it first on sys.path / PYTHONPATH), must create its inputs itself in a temporary directory, and clean up after itself. Running as root is a fact of this sandbox (file permission bits are not enforced for root) - if your scenario depends on permissions, make the demo show the effect in a way that works as root (e.g. by inspecting the calls made, or the resulting mode bits), or explain why it cannot;
  - notes.md        : 5-15 lines: what the change is, why it is plausible, which clause of the property it breaks, exactly what is needed for it to manifest, and the commands you ran (test suite result with the change applied: number passed, and confirmation that no stable_pass test is lost; demo result with and without the change).

Procedure suggestion: make change A in the worktree, run the test suite, run the demo, save `git diff` to A/patch.diff, then `git -C /tmp/wt@R@-@ID@ checkout -- .` and do the same for B. Leave the worktree clean (no uncommitted changes) when you finish. Do not commit anything. When done, reply with a short summary of A and B (one paragraph each).
'''


def main() -> int:
    rnd = sys.argv[1]
    focus = json.load(open(sys.argv[2]))
    taken = json.load(open(os.path.join(HERE, "taken.json")))
    for line in open(os.path.join(VERIF, "properties.jsonl")):
        p = json.loads(line)
        pid = p["id"]
        if pid not in focus:
            continue
        wt = "/tmp/wt%s-%s" % (rnd, pid)
        out = "/tmp/out%s-%s" % (rnd, pid)
        if not os.path.exists(wt):
            subprocess.run(["git", "-C", "/repo", "worktree", "add", "-q", "--detach", wt, "HEAD"], check=True)
        os.makedirs(out, exist_ok=True)
        with open(os.path.join(out, "property.txt"), "w") as f:
            f.write(
                "%s - %s\n\nSTATEMENT: %s\n\nQUANTIFIED OVER: %s\n\nRELEVANT CODE (anchors): %s\nMECHANISMS: %s\n"
                % (pid, p["title"], p["statement"], p["quantifier"]["text"], ", ".join(p["anchors"]["files"]), "; ".join("%s (%s)" % (m["name"], m["where"]) for m in p["anchors"]["mechanism"]))
            )
        with open(os.path.join(out, "brief.txt"), "w") as f:
            f.write(TMPL.replace("@R@", rnd).replace("@ID@", pid).replace("@TAKEN@", taken[pid]).replace("@FOCUS@", focus[pid]))
        print(pid, wt, out)
    return 0


if __name__ == "__main__":
    sys.exit(main())
