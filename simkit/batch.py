"""
Batch coordinator: routes cases to hash-seeded workers, aggregates, minimises, writes replay files and evidence.

Exit codes (DESIGN 1.6): 0 held / only known findings, 1 VIOLATION, 2 harness error.
"""
import concurrent.futures
import hashlib
import json
import os
import select
import shutil
import subprocess
import sys
import tempfile
import threading
import time
import typing

from . import findings as findings_mod
from .rng import H

VERIF_DIR = os.path.dirname(os.path.dirname(os.path.abspath(__file__)))
N_HASH_SEEDS = 8
# the simulated PYTHONHASHSEED values; 0 disables randomisation, the others are arbitrary fixed integers
HASH_SEED_VALUES = [0, 1, 2, 3, 1001, 65537, 123456789, 4294967295]


class HarnessError(Exception):
    pass


class WorkerProc:
    def __init__(self, hash_seed_value: int, scratch: str, nunavut_src: str):
        env = dict(os.environ)
        env["PYTHONHASHSEED"] = str(hash_seed_value)
        env["VERIF_SCRATCH"] = scratch
        env["NUNAVUT_SRC"] = nunavut_src
        env["PYTHONDONTWRITEBYTECODE"] = "1"
        env["PYTHONPATH"] = VERIF_DIR
        env.pop("PYTHONSTARTUP", None)
        self.hash_seed_value = hash_seed_value
        self.p = subprocess.Popen(
            [sys.executable, "-m", "simkit.worker"],
            stdin=subprocess.PIPE,
            stdout=subprocess.PIPE,
            stderr=subprocess.DEVNULL if not os.environ.get("VERIF_DEBUG") else None,
            cwd=VERIF_DIR,
            env=env,
        )
        self.buf = b""

    def call(self, job: dict, timeout_s: float) -> dict:
        assert self.p.stdin is not None and self.p.stdout is not None
        try:
            self.p.stdin.write((json.dumps(job) + "\n").encode("utf-8"))
            self.p.stdin.flush()
        except (BrokenPipeError, OSError) as ex:
            raise HarnessError("worker died before accepting a job: %s" % ex)
        fd = self.p.stdout.fileno()
        deadline = time.monotonic() + timeout_s
        while b"\n" not in self.buf:
            left = deadline - time.monotonic()
            if left <= 0:
                self.kill()
                raise HarnessError("worker silent for %.0fs on job %r (killed)" % (timeout_s, job.get("label")))
            r, _, _ = select.select([fd], [], [], min(left, 2.0))
            if not r:
                continue
            b = os.read(fd, 1 << 16)
            if not b:
                raise HarnessError("worker exited (status %r) during job %r" % (self.p.poll(), job.get("label")))
            self.buf += b
        line, self.buf = self.buf.split(b"\n", 1)
        return typing.cast(dict, json.loads(line))

    def kill(self) -> None:
        try:
            self.p.kill()
        except OSError:
            pass
        try:
            self.p.wait(timeout=5)
        except Exception:  # pylint: disable=broad-except
            pass

    def close(self) -> None:
        try:
            if self.p.stdin:
                self.p.stdin.close()
            self.p.wait(timeout=3)
        except Exception:  # pylint: disable=broad-except
            self.kill()


class Pool:
    """
    Fixed slots, each bound to one simulated PYTHONHASHSEED and owning one (lazily started, reused) worker
    interpreter; a job is queued for the slots of its hash seed, so which slot serves it and how many slots
    exist cannot influence it. At most ``workers`` jobs run at a time.
    """

    def __init__(self, workers: int, scratch: str, nunavut_src: str):
        import queue

        self.workers = workers
        self.scratch = scratch
        self.nunavut_src = nunavut_src
        self.lock = threading.Lock()
        self.sem = threading.Semaphore(workers)
        self.next_id = 0
        self.closed = False
        self.queues = [queue.Queue() for _ in range(N_HASH_SEEDS)]  # type: typing.List[typing.Any]
        n_slots = max(workers, N_HASH_SEEDS)
        n_slots = (n_slots + N_HASH_SEEDS - 1) // N_HASH_SEEDS * N_HASH_SEEDS
        self.procs = [None] * n_slots  # type: typing.List[typing.Optional[WorkerProc]]
        self.threads = []
        for i in range(n_slots):
            t = threading.Thread(target=self._slot, args=(i,), daemon=True)
            t.start()
            self.threads.append(t)

    def _slot(self, i: int) -> None:
        hs = i % N_HASH_SEEDS
        q = self.queues[hs]
        while True:
            item = q.get()
            if item is None:
                return
            fut, job, timeout_s = item
            if not fut.set_running_or_notify_cancel():
                continue
            with self.sem:
                if self.closed:
                    fut.set_exception(HarnessError("pool closed"))
                    continue
                try:
                    w = self.procs[i]
                    if w is None or w.p.poll() is not None:
                        w = WorkerProc(HASH_SEED_VALUES[hs], self.scratch, self.nunavut_src)
                        self.procs[i] = w
                    reply = w.call(job, timeout_s + 30)
                    if "harness" in reply:
                        fut.set_exception(HarnessError(reply["harness"]))
                    else:
                        fut.set_result(reply["result"])
                except HarnessError as ex:
                    if self.procs[i] is not None:
                        self.procs[i].kill()  # type: ignore
                        self.procs[i] = None
                    fut.set_exception(ex)
                except BaseException as ex:  # pylint: disable=broad-except
                    fut.set_exception(HarnessError("%s: %s" % (type(ex).__name__, ex)))

    def submit(self, prop: str, case: dict, tier: str, timeout_s: float = 900.0) -> "concurrent.futures.Future[dict]":
        hs = int(case.get("hash_seed", 0)) % N_HASH_SEEDS
        with self.lock:
            self.next_id += 1
            jid = self.next_id
        job = {"id": jid, "prop": prop, "case": case, "tier": tier, "timeout_s": timeout_s, "label": case.get("label")}
        fut = concurrent.futures.Future()  # type: concurrent.futures.Future
        self.queues[hs].put((fut, job, timeout_s))
        return fut

    def run(self, prop: str, case: dict, tier: str, timeout_s: float = 900.0) -> dict:
        return typing.cast(dict, self.submit(prop, case, tier, timeout_s).result())

    def shutdown(self) -> None:
        self.closed = True
        for q in self.queues:
            try:
                while True:
                    item = q.get_nowait()
                    if item is not None:
                        item[0].cancel()
            except Exception:  # pylint: disable=broad-except
                pass
        for i, _ in enumerate(self.threads):
            self.queues[i % N_HASH_SEEDS].put(None)
        for w in list(self.procs):
            if w is not None:
                w.kill()


def hash_seed_for(seed: int, prop: str, index: typing.Any) -> int:
    return H(seed, prop, "hs", str(index)) % N_HASH_SEEDS


class Aggregate:
    def __init__(self) -> None:
        self.cases = 0
        self.evaluations = 0
        self.nontrivial = set()  # type: typing.Set[str]
        self.states = set()  # type: typing.Set[str]
        self.counters = {}  # type: typing.Dict[str, typing.Dict[str, int]]
        self.sim_time_s = 0.0
        self.samples = []  # type: typing.List[typing.Any]
        self.violations = []  # type: typing.List[dict]
        self.digests = {}  # type: typing.Dict[str, str]
        self.harness_errors = []  # type: typing.List[str]
        self.skipped = 0

    def add(self, label: str, res: dict) -> None:
        self.cases += 1
        self.evaluations += int(res.get("evaluations", 1))
        for k in res.get("nontrivial_keys", []):
            self.nontrivial.add(k)
        for s in res.get("states", []):
            self.states.add(s)
        for group, d in res.get("counters", {}).items():
            g = self.counters.setdefault(group, {})
            for k, v in d.items():
                g[k] = g.get(k, 0) + int(v)
        self.sim_time_s += float(res.get("sim_time_s", 0.0))
        if res.get("sample") is not None and len(self.samples) < 4:
            self.samples.append(res["sample"])
        for v in res.get("violations", []):
            v = dict(v)
            v["case_label"] = label
            self.violations.append(v)
        if res.get("digest"):
            self.digests[label] = res["digest"]
        self.skipped += int(res.get("skipped", 0))


def _signature_class(sig: str) -> str:
    return sig


def minimise(
    sim: typing.Any, pool: Pool, prop: str, tier: str, case: dict, signature: str, max_runs: int, log: typing.Callable
) -> typing.Tuple[dict, int]:
    """Greedy delta debugging over the candidates the simulation proposes; keeps a candidate only if the same
    signature reappears. Returns (smallest failing explicit case, number of runs spent)."""
    runs = 0
    best = case
    if not hasattr(sim, "reductions"):
        return best, runs
    progress = True
    deadline = time.monotonic() + float(os.environ.get("VERIF_MINIMISE_S", "240"))
    while progress and runs < max_runs and time.monotonic() < deadline:
        progress = False
        cands = list(sim.reductions(best))
        # evaluate candidates in parallel waves, adopt the first (in proposal order) that still fails
        wave = 8
        for i in range(0, len(cands), wave):
            if runs >= max_runs or time.monotonic() > deadline:
                break
            futs = [pool.submit(prop, c, tier) for c in cands[i : i + wave]]
            adopted = None
            for c, f in zip(cands[i : i + wave], futs):
                runs += 1
                try:
                    res = f.result()
                except Exception:  # pylint: disable=broad-except
                    continue
                if adopted is None and any(v["signature"] == signature for v in res.get("violations", [])):
                    adopted = res.get("executed", c)
            if adopted is not None:
                best = adopted
                progress = True
                break
    log("minimised with %d runs" % runs)
    return best, runs


def write_replay(prop: str, case: dict, violation: dict, seed: int) -> str:
    d = os.path.join(VERIF_DIR, "replays", prop)
    os.makedirs(d, exist_ok=True)
    body = {
        "property": prop,
        "seed": seed,
        "signature": violation["signature"],
        "detail": violation.get("detail"),
        "case": case,
    }
    blob = json.dumps(body, indent=1, sort_keys=True)
    name = "%s-%s.json" % (prop, hashlib.sha256(blob.encode()).hexdigest()[:12])
    path = os.path.join(d, name)
    with open(path, "w", encoding="utf-8") as f:
        f.write(blob)
    return path


def write_evidence(
    prop: str, tier: str, seed: int, level: str, agg: Aggregate, wall_s: float, sim: typing.Any, extra: dict,
    n_new_violations: int,
) -> str:  # fmt: skip
    d = os.path.join(VERIF_DIR, "evidence")
    os.makedirs(d, exist_ok=True)
    path = os.path.join(d, "%s.json" % prop)
    hours = max(wall_s, 1e-6) / 3600.0
    coverage = {
        "evaluations": agg.evaluations,
        "distinct_nontrivial": len(agg.nontrivial),
        "rule": getattr(sim, "RULE", ""),
        "samples": agg.samples,
        "cases": agg.cases,
        "seeds": 1,
        "simulated_runs_per_hour": int(agg.evaluations / hours),
        "cases_per_hour": int(agg.cases / hours),
        "simulated_time_covered_s": agg.sim_time_s,
        "distinct_states": len(agg.states),
        "distinct_states_measure": getattr(sim, "STATE_MEASURE", ""),
        "counters": agg.counters,
        "skipped_inputs": agg.skipped,
        "components": getattr(sim, "COMPONENTS", {}),
        "exhaustive": False,
    }
    coverage.update(extra)
    ev = {
        "property_id": prop,
        "tier": tier,
        "seed": seed,
        "level": level,
        "coverage": coverage,
        "assumptions": getattr(sim, "ASSUMPTIONS", []),
        "wall_s": round(wall_s, 2),
        "violations": n_new_violations,
    }
    tmp = path + ".tmp"
    with open(tmp, "w", encoding="utf-8") as f:
        json.dump(ev, f, indent=1, sort_keys=True)
    os.replace(tmp, path)
    return path


def make_scratch() -> str:
    base = os.environ.get("VERIF_SCRATCH_BASE")
    if not base:
        base = "/dev/shm" if os.path.isdir("/dev/shm") and os.access("/dev/shm", os.W_OK) else tempfile.gettempdir()
    return tempfile.mkdtemp(prefix="nvsim-", dir=base)


def run_check(prop: str, sim: typing.Any, tier: str, seed: int, workers: int, replay: typing.Optional[str] = None) -> int:
    t0 = time.monotonic()
    nunavut_src = os.environ.get("NUNAVUT_SRC", "/repo/src")
    scratch = make_scratch()
    pool = Pool(workers, scratch, nunavut_src)
    quiet = bool(os.environ.get("VERIF_QUIET"))

    def log(msg: str) -> None:
        if not quiet:
            print("[%s %6.1fs] %s" % (prop, time.monotonic() - t0, msg), flush=True)

    try:
        print("VERIF_SEED=%d property=%s tier=%s workers=%d nunavut_src=%s" % (seed, prop, tier, workers, nunavut_src), flush=True)
        if replay is not None:
            return _replay(prop, sim, pool, tier, replay, log)
        known = findings_mod.load(prop)
        cases = []  # type: typing.List[dict]
        for i, c in enumerate(sim.directed_cases(seed, tier)):
            c.setdefault("label", "directed-%d" % i)
            c.setdefault("hash_seed", hash_seed_for(seed, prop, c["label"]))
            cases.append(c)
        n_random = int(os.environ.get("VERIF_N_CASES", "") or sim.n_cases(tier))
        for i in range(n_random):
            c = sim.gen_case(seed, i, tier)
            c.setdefault("label", "seed%d-%d" % (seed, i))
            c.setdefault("hash_seed", hash_seed_for(seed, prop, i))
            cases.append(c)
        budget = float(os.environ.get("VERIF_BUDGET_S", sim.budget_s(tier)))
        agg = Aggregate()
        log("%d cases (%d directed), budget %.0fs" % (len(cases), len(cases) - n_random, budget))
        pending = {}  # type: typing.Dict[concurrent.futures.Future, dict]
        it = iter(cases)
        exhausted = False
        truncated = False
        stop_on_violation = False
        max_unknown = int(os.environ.get("VERIF_MAX_VIOLATIONS", "3"))
        while True:
            while not exhausted and not stop_on_violation and len(pending) < workers * 2:
                if time.monotonic() - t0 > budget:
                    truncated = True
                    exhausted = True
                    break
                try:
                    c = next(it)
                except StopIteration:
                    exhausted = True
                    break
                pending[pool.submit(prop, c, tier, sim.case_timeout_s(tier))] = c
            if not pending:
                break
            done, _ = concurrent.futures.wait(list(pending.keys()), timeout=5, return_when=concurrent.futures.FIRST_COMPLETED)
            for f in done:
                c = pending.pop(f)
                try:
                    res = f.result()
                except HarnessError as ex:
                    agg.harness_errors.append("%s: %s" % (c["label"], ex))
                    continue
                if os.environ.get("VERIF_TRACE"):
                    log("done %s evals=%s" % (c["label"], res.get("evaluations")))
                res_case = res.get("executed", c)
                for v in res.get("violations", []):
                    v["case"] = res_case
                agg.add(c["label"], res)
            unknown_sigs = {v["signature"] for v in agg.violations if findings_mod.classify(known, prop, v) is None}
            if len(unknown_sigs) >= max_unknown or (unknown_sigs and tier == "quick" and not os.environ.get("VERIF_KEEP_GOING")):
                stop_on_violation = True
            if agg.harness_errors and len(agg.harness_errors) > 5:
                break
        if agg.harness_errors:
            for e in agg.harness_errors[:5]:
                print("HARNESS-ERROR property=%s %s" % (prop, e.replace("\n", " | ")[:1500]), flush=True)
        # classify
        new_by_sig = {}  # type: typing.Dict[str, dict]
        known_hits = {}  # type: typing.Dict[str, typing.Tuple[dict, int]]
        for v in agg.violations:
            k = findings_mod.classify(known, prop, v)
            if k is None:
                new_by_sig.setdefault(v["signature"], v)
            else:
                ent, n = known_hits.get(k["key"], (k, 0))
                known_hits[k["key"]] = (ent, n + 1)
        for key, (ent, n) in sorted(known_hits.items()):
            print("KNOWN-FINDING: property=%s %s [%s; seen %d times in this run]" % (prop, ent["what"], key, n), flush=True)
        rc = 0
        replay_paths = []
        for sig, v in sorted(new_by_sig.items()):
            log("violation %s in %s: %s" % (sig, v["case_label"], str(v.get("detail"))[:600]))
            case = v["case"]
            small, _ = minimise(sim, pool, prop, tier, case, sig, int(os.environ.get("VERIF_MINIMISE_RUNS", getattr(sim, "MINIMISE_RUNS", 120))), log)
            # confirm the minimised case once more on a fresh worker before reporting it
            detail = v.get("detail")
            try:
                res = pool.run(prop, small, tier, sim.case_timeout_s(tier))
                same = [x for x in res.get("violations", []) if x["signature"] == sig]
                if same:
                    detail = same[0].get("detail")
                    small = res.get("executed", small)
                else:
                    small = case
            except HarnessError:
                small = case
            path = write_replay(prop, small, {"signature": sig, "detail": detail}, seed)
            replay_paths.append(path)
            print("VIOLATION property=%s replay=%s" % (prop, path), flush=True)
            print("  signature: %s" % sig, flush=True)
            print("  detail: %s" % (json.dumps(detail)[:2000],), flush=True)
            rc = 1
        wall = time.monotonic() - t0
        extra = {
            "truncated_by_budget": truncated,
            "known_findings_seen": {k: n for k, (_, n) in known_hits.items()},
            "harness_errors": len(agg.harness_errors),
            "workers": workers,
            "hash_seeds": HASH_SEED_VALUES,
        }
        if hasattr(sim, "evidence_extra"):
            extra.update(sim.evidence_extra(agg))
        if os.environ.get("VERIF_DIGESTS_OUT"):
            with open(os.environ["VERIF_DIGESTS_OUT"], "w", encoding="utf-8") as f:
                json.dump(agg.digests, f, indent=0, sort_keys=True)
        if not os.environ.get("VERIF_NO_EVIDENCE"):
            write_evidence(prop, tier, seed, sim.LEVEL, agg, wall, sim, extra, len(new_by_sig))
        log(
            "cases=%d evaluations=%d nontrivial=%d states=%d violations(new)=%d known=%d harness_errors=%d wall=%.1fs"
            % (agg.cases, agg.evaluations, len(agg.nontrivial), len(agg.states), len(new_by_sig), len(known_hits), len(agg.harness_errors), wall)
        )
        if rc == 0 and agg.harness_errors:
            return 2
        if rc == 0 and agg.cases == 0:
            print("HARNESS-ERROR property=%s no case completed" % prop)
            return 2
        if rc == 0 and (len(agg.nontrivial) < 2 or agg.skipped * 2 > agg.cases):
            # a batch in which (almost) nothing could be compared proves nothing: never report it as "held"
            print("HARNESS-ERROR property=%s vacuous batch: %d non-trivial cases, %d of %d inputs skipped (reference generation fails?)" % (prop, len(agg.nontrivial), agg.skipped, agg.cases))
            return 2
        return rc
    finally:
        pool.shutdown()
        shutil.rmtree(scratch, ignore_errors=True)


def _replay(prop: str, sim: typing.Any, pool: Pool, tier: str, path: str, log: typing.Callable) -> int:
    with open(path, "r", encoding="utf-8") as f:
        body = json.load(f)
    case = body["case"]
    res = pool.run(prop, case, tier, sim.case_timeout_s("thorough"))
    sigs = [v["signature"] for v in res.get("violations", [])]
    log("replayed %s: signatures %r (expected %r)" % (path, sigs, body["signature"]))
    known = findings_mod.load(prop)
    for v in res.get("violations", []):
        if v["signature"] == body["signature"]:
            k = findings_mod.classify(known, prop, v)
            if k is not None:
                print("KNOWN-FINDING: property=%s %s [%s]" % (prop, k["what"], k["key"]))
                return 0
            print("VIOLATION property=%s replay=%s" % (prop, path))
            print("  signature: %s" % v["signature"])
            print("  detail: %s" % (json.dumps(v.get("detail"))[:2000],))
            return 1
    print("replay did not reproduce %r (got %r)" % (body["signature"], sigs))
    return 0
