#!/venv/bin/python
"""
Determinism self-test (DESIGN 1.7): every VERIF_SEED is executed several times - twice with the same settings, at
another worker count, and with the harness itself under another PYTHONHASHSEED in a fresh interpreter - and the
per-case digests (status, injected fault, ordered sandbox events, signatures, traces) must be identical.

usage: selftest/determinism.py [--props C12,C08,...] [--seeds 1,2,3] [--cases N]
"""
import argparse
import json
import os
import subprocess
import sys
import tempfile
import time

HERE = os.path.dirname(os.path.dirname(os.path.abspath(__file__)))
ALL = ["C04", "C07", "C08", "C10", "C11", "C12", "C13", "C15", "C16"]
DEFAULT_CASES = {"C04": 10, "C07": 12, "C08": 12, "C10": 24, "C11": 40, "C12": 20, "C13": 200, "C15": 16, "C16": 80}


def run(prop: str, seed: int, workers: int, harness_hs: str, cases: int, out: str) -> int:
    env = dict(os.environ)
    env.update(
        {
            "VERIF_SEED": str(seed),
            "VERIF_N_CASES": str(cases),
            "VERIF_NO_EVIDENCE": "1",
            "VERIF_DIGESTS_OUT": out,
            "VERIF_QUIET": "1",
            "VERIF_HARNESS_HASHSEED": harness_hs,
            "VERIF_MINIMISE_RUNS": "0",
            "VERIF_BUDGET_S": "3000",  # (a variant slowed down by fewer workers or a busy machine must still run every case)
        }
    )
    env.pop("PYTHONHASHSEED", None)
    p = subprocess.run([os.path.join(HERE, "check"), prop, "--tier", "quick", "--workers", str(workers)], env=env, stdout=subprocess.PIPE, stderr=subprocess.STDOUT, cwd=HERE, timeout=3000, check=False)
    return p.returncode


def main() -> int:
    ap = argparse.ArgumentParser()
    ap.add_argument("--props", default=",".join(ALL))
    ap.add_argument("--seeds", default="1,2,3")
    ap.add_argument("--cases", type=int, default=0)
    args = ap.parse_args()
    bad = 0
    total = 0
    t0 = time.time()
    with tempfile.TemporaryDirectory(dir="/dev/shm" if os.path.isdir("/dev/shm") else None) as td:
        for prop in args.props.split(","):
            for seed in [int(s) for s in args.seeds.split(",")]:
                cases = args.cases or DEFAULT_CASES.get(prop, 20)
                variants = [("w16-hs0-a", 16, "0"), ("w16-hs0-b", 16, "0"), ("w3-hs0", 3, "0"), ("w16-hs7", 16, "7")]
                maps = {}
                for name, workers, hs in variants:
                    out = os.path.join(td, "%s-%d-%s.json" % (prop, seed, name))
                    rc = run(prop, seed, workers, hs, cases, out)
                    if rc not in (0, 1) or not os.path.exists(out):
                        print("%s seed=%d %s: check exited %d without digests" % (prop, seed, name, rc))
                        bad += 1
                        continue
                    maps[name] = json.load(open(out))
                ref = maps.get("w16-hs0-a")
                for name, m in maps.items():
                    total += len(m)
                    if ref is not None and m != ref:
                        diff = sorted(k for k in set(m) | set(ref) if m.get(k) != ref.get(k))
                        print("NONDETERMINISM %s seed=%d variant=%s: %d of %d case digests differ, e.g. %s" % (prop, seed, name, len(diff), len(ref), diff[:3]))
                        bad += 1
                print("%s seed=%d: %d cases x %d variants compared%s" % (prop, seed, len(ref or {}), len(maps), "" if not bad else " (problems so far: %d)" % bad), flush=True)
    print("determinism self-test: %d case digests compared in %.0fs, %d problems" % (total, time.time() - t0, bad))
    return 1 if bad else 0


if __name__ == "__main__":
    sys.exit(main())
