"""
User template sets planted into the sandbox (``--templates`` / ``--support-templates``).

With ``--templates`` nunavut uses *only* the user directory for type templates (FIND_FIRST), so every set must
resolve every composite type (through Any.j2 or ancestor-named templates) and, if namespace files are generated,
provide Namespace.j2. None of the sets prints the documented ``now_utc`` global (a template that prints the
clock is non-reproducible by design).
"""
import os
import typing

_BODY = """{%- for a in T.attributes %}
  attr {{ a.name | id }}{% if a is constant %} = const{% endif %}
{%- endfor %}
"""

_NS = """USER Namespace template for {{ T.full_name }}
{%- for t in T.data_types %}
  has {{ t.short_name }}.{{ t.version.major }}.{{ t.version.minor }}
{%- endfor %}
"""

SETS = {
    "any_only": {
        "Any.j2": "USER Any template: {{ T.full_name }}.{{ T.version.major }}.{{ T.version.minor }}\n" + _BODY,
        "Namespace.j2": _NS,
    },
    "by_kind": {
        "StructureType.j2": "{% include 'inc/common.j2' %}\nUSER Structure {{ T.full_name }}\n" + _BODY,
        "UnionType.j2": "{% include 'inc/common.j2' %}\nUSER Union {{ T.full_name }}\n" + _BODY,
        "ServiceType.j2": "{% include 'inc/common.j2' %}\nUSER Service {{ T.full_name }}\n  request {{ T.request_type.full_name }}\n  response {{ T.response_type.full_name }}\n",
        "DelimitedType.j2": "{% include 'inc/common.j2' %}\nUSER Delimited {{ T.full_name }} extent {{ T.extent }}\n" + _BODY,
        "inc/common.j2": "// common header for {{ T.short_name }} (version {{ T.version.major }}.{{ T.version.minor }})",
        "Namespace.j2": _NS,
    },
    "composite": {
        "CompositeType.j2": "USER Composite {{ T.full_name }}\n{% for a in T.attributes %}{% include 'sub/Attr.j2' %}{% endfor %}\n",
        "sub/Attr.j2": "  - {{ a.name }}: {{ a.data_type }}\n",
        "Namespace.j2": _NS,
    },
    # leading/trailing blank lines, unique names, whitespace: designed for C10/C15
    "blanky": {
        "Any.j2": "\n\n{{ 'u' | to_template_unique_name }} {{ T.full_name }}   \n\t\n\n\n{{ 'u' | to_template_unique_name }} {{ 'v' | to_template_unique_name }}\n"
        + _BODY
        + "\n\n",
        "Namespace.j2": "\n" + _NS + "\n\n\n",
    },
    "crlf": {
        "Any.j2": "line one  \r\n\r\n\r\n{{ T.full_name }}\t\r\nlast {{ 'x\\r\\ny  \\r\\n' }}\r\n\r\nexo\u2028tic \x85\n\x1c\n\u2029\n\nv\x0bf\x0c {{ 'lone\\rcr \\r' }}\n",
        "Namespace.j2": _NS,
    },
}  # type: typing.Dict[str, typing.Dict[str, str]]

# the documented type_to_include_path filter, applied to the type itself and to every composite of the same root namespace
# it refers to (C11: total path lookup; the same relative path whether a type is generated or merely referenced)
SETS["paths"] = {
    "Any.j2": "SELF {{ T | type_to_include_path }}\n"
    "{% for a in T.attributes %}{% set dt = a.data_type.element_type if a.data_type is ArrayType else a.data_type %}"
    "{% if dt is CompositeType and not dt.has_parent_service and dt.root_namespace == T.root_namespace %}REF {{ dt | type_to_include_path }}\n{% endif %}"
    "{% endfor %}",
    "ServiceType.j2": "SELF {{ T | type_to_include_path }}\n",
    "Namespace.j2": _NS,
}

# two templates with the same file name in different directories, both included (names are paths, not base names)
SETS["dup_names"] = {
    "Any.j2": "{% include 'header.j2' %}\n{% include 'parts/header.j2' %}\n{% include 'parts/deeper/header.j2' %}\nUSER Any {{ T.full_name }}\n" + _BODY,
    "header.j2": "// top-level header for {{ T.short_name }}",
    "parts/header.j2": "// parts header for {{ T.short_name }}",
    "parts/deeper/header.j2": "// deeper header for {{ T.short_name }}",
    "Namespace.j2": _NS,
}

# a template that iterates the collections nunavut hands to templates (their order is part of the output)
SETS["introspect"] = {
    "Any.j2": "INTROSPECT {{ T.full_name }}\n"
    "{% for k, v in options.items() %}option {{ k }}={{ v }}\n{% endfor %}"
    "{% for l, v in ln.items() %}language {{ l }}\n{% endfor %}"
    "{% for k, v in uses_queries.items() %}uses {{ k }}\n{% endfor %}"
    "sets {{ nunavut.template_sets | length }} support {{ nunavut.support.namespace }} é–中\n",
    "Namespace.j2": _NS,
}

# an INCOMPLETE set: only sealed structures have a template (no Any.j2): generation must fail for anything else
SETS["struct_only"] = {
    "StructureType.j2": "USER Structure-only {{ T.full_name }}\n" + _BODY,
    "Namespace.j2": _NS,
}

SUPPORT_NAME = {"c": "serialization.j2", "cpp": "serialization.j2", "py": "nunavut_support.j2"}

SUPPORT_SETS = {
    "override": lambda lang: {SUPPORT_NAME[lang]: "{# user support template #}\nUSER SUPPORT for {{ nunavut.support.namespace | join('.') }}\n"},
    "unrelated": lambda lang: {"not_a_support_file.j2": "never used\n"},
    # a support header that starts and ends with blank lines (for the line processors: C15)
    "blanky": lambda lang: {SUPPORT_NAME[lang]: "\n\nUSER SUPPORT for {{ nunavut.support.namespace | join('.') }}   \n\t\n\n\n\nend of support\n\n\n"},
    # a same-named template in a sub-folder (an old copy kept around): names are paths, only the top-level one is rendered
    "subdir_shadow": lambda lang: {
        SUPPORT_NAME[lang]: "{# user support template #}\nUSER SUPPORT (top level) for {{ nunavut.support.namespace | join('.') }}\n",
        "attic/" + SUPPORT_NAME[lang]: "{# old copy #}\nNEVER RENDERED (attic)\n",
    },
    # ... and the same without a top-level file: the built-in template is rendered
    "subdir_only": lambda lang: {"attic/" + SUPPORT_NAME[lang]: "{# old copy #}\nNEVER RENDERED (attic)\n", "zz/" + SUPPORT_NAME[lang]: "NEVER RENDERED (zz)\n"},
}  # type: typing.Dict[str, typing.Callable[[str], typing.Dict[str, str]]]


def plant(tpl_root: str, name: str, files: typing.Dict[str, str]) -> str:
    d = os.path.join(tpl_root, name)
    for rel, text in files.items():
        p = os.path.join(d, rel)
        os.makedirs(os.path.dirname(p), exist_ok=True)
        with open(p, "w", encoding="utf-8", newline="") as f:
            f.write(text)
    return d


def usable_for(lang: str, name: str) -> bool:
    """to_template_unique_name is provided by c, cpp and py only."""
    if lang == "html":
        return name == "introspect"  # the html language provides no 'id' filter; introspect does not need it
    if name == "blanky":
        return lang in ("c", "cpp", "py")
    return True


def builtin_copy(lang: str) -> typing.Dict[str, str]:
    """The user's templates directory is a copy of the built-in templates of the language (the usual starting point)."""
    import importlib

    mod = importlib.import_module("nunavut.lang.%s.templates" % lang)
    base = os.path.dirname(mod.__file__)
    out = {}
    for d, _dirs, fs in os.walk(base):
        for fn in fs:
            if fn.endswith((".j2", ".js", ".css")) and "__pycache__" not in d:
                p = os.path.join(d, fn)
                with open(p, "r", encoding="utf-8") as f:
                    out[os.path.relpath(p, base)] = f.read()
    return out
