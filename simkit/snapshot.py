"""Recursive snapshots of a directory tree: relpath -> (type, size, mode, mtime_ns, sha256) and diffs."""
import hashlib
import os
import stat
import typing

Entry = typing.Tuple[str, int, int, int, str]


def snapshot(root: str, with_mtime: bool = True, follow_file_links: bool = False) -> typing.Dict[str, Entry]:
    """follow_file_links: a symbolic link to a regular file is reported as the file a reader of that path sees"""
    out = {}  # type: typing.Dict[str, Entry]
    if not os.path.lexists(root):
        return out
    stack = [root]
    while stack:
        d = stack.pop()
        try:
            names = sorted(os.listdir(d))
        except NotADirectoryError:
            names = []
        for n in names:
            p = os.path.join(d, n)
            rel = os.path.relpath(p, root)
            st = os.lstat(p)
            mt = st.st_mtime_ns if with_mtime else 0
            if stat.S_ISDIR(st.st_mode):
                out[rel] = ("d", 0, stat.S_IMODE(st.st_mode), mt, "")
                stack.append(p)
            elif stat.S_ISLNK(st.st_mode):
                if follow_file_links and os.path.isfile(p):
                    st2 = os.stat(p)
                    with open(p, "rb") as f:
                        h = hashlib.sha256(f.read()).hexdigest()
                    out[rel] = ("f", st2.st_size, stat.S_IMODE(st2.st_mode), st2.st_mtime_ns if with_mtime else 0, h)
                else:
                    out[rel] = ("l", 0, 0, mt, os.readlink(p))
            else:
                with open(p, "rb") as f:
                    h = hashlib.sha256(f.read()).hexdigest()
                out[rel] = ("f", st.st_size, stat.S_IMODE(st.st_mode), mt, h)
    return out


def files_of(snap: typing.Dict[str, Entry]) -> typing.Dict[str, typing.Tuple[str, int]]:
    """relpath -> (sha256, mode) of regular files only"""
    return {k: (v[4], v[2]) for k, v in snap.items() if v[0] == "f"}


def diff(a: typing.Dict[str, Entry], b: typing.Dict[str, Entry]) -> typing.List[str]:
    out = []
    for k in sorted(set(a) | set(b)):
        if k not in a:
            out.append("+ %s %r" % (k, b[k][:3]))
        elif k not in b:
            out.append("- %s %r" % (k, a[k][:3]))
        elif a[k] != b[k]:
            what = []
            for i, name in enumerate(("type", "size", "mode", "mtime", "sha")):
                if a[k][i] != b[k][i]:
                    what.append(name if name not in ("mode",) else "mode %o->%o" % (a[k][i], b[k][i]))
            out.append("~ %s (%s)" % (k, ",".join(what)))
    return out


def digest(snap: typing.Dict[str, Entry], with_mtime: bool = False) -> str:
    h = hashlib.sha256()
    for k in sorted(snap):
        v = snap[k]
        h.update(repr((k, v[0], v[1], v[2], v[3] if with_mtime else 0, v[4])).encode())
    return h.hexdigest()[:16]
